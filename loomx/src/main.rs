//! loom model checking of `common::concurrent::atomic_time::AtomicInstant`, the
//! primitive behind the sync cache's `valid_after` watermark, included from the
//! repository's own source file. The schedule explorer (schedx) treats each of its
//! methods as one atomic step; this harness explores the interleavings INSIDE them
//! (every lock acquisition is a scheduling point for loom), exhaustively up to the
//! preemption bound.

use std::sync::atomic::{AtomicU64, Ordering::SeqCst};

mod concurrent {
    /// stands in for `common::time::Instant` (only `Copy` and `PartialOrd` are used)
    #[derive(Clone, Copy, Debug, PartialEq, PartialOrd)]
    pub struct Instant(pub u64);

    #[allow(dead_code)]
    pub mod atomic_time {
        include!(env!("ATOMIC_TIME_RS"));
    }
}

use concurrent::atomic_time::AtomicInstant;
use concurrent::Instant;
use loom::sync::Arc;

static EXECS: AtomicU64 = AtomicU64::new(0);

fn jstr(s: &str) -> String {
    format!("\"{}\"", s.replace('\\', "\\\\").replace('"', "\\\"").replace('\n', "\\n"))
}

/// The watermark only moves forward: whatever the interleaving of concurrent
/// `advance_instant` calls, the final value is the maximum, and a reader never sees it
/// go backwards.
fn scenario(name: &str) {
    match name {
        "two-writers-one-reader" => loom::model(|| {
            EXECS.fetch_add(1, SeqCst);
            let a = Arc::new(AtomicInstant::default());
            let hs: Vec<_> = [10u64, 20]
                .into_iter()
                .map(|t| {
                    let a = a.clone();
                    loom::thread::spawn(move || a.advance_instant(Instant(t)))
                })
                .collect();
            let r = {
                let a = a.clone();
                loom::thread::spawn(move || {
                    let x = a.instant();
                    let y = a.instant();
                    assert!(x <= y || x.is_none(), "a reader saw the watermark go backwards: {x:?} then {y:?}");
                    if x.is_some() {
                        assert!(y.is_some());
                    }
                })
            };
            for h in hs {
                h.join().unwrap();
            }
            r.join().unwrap();
            assert_eq!(a.instant(), Some(Instant(20)), "after advance_instant(10) || advance_instant(20) the watermark must be 20");
            assert!(a.is_set());
        }),
        "three-writers" => loom::model(|| {
            EXECS.fetch_add(1, SeqCst);
            let a = Arc::new(AtomicInstant::new(Instant(5)));
            let hs: Vec<_> = [30u64, 10, 20]
                .into_iter()
                .map(|t| {
                    let a = a.clone();
                    loom::thread::spawn(move || a.advance_instant(Instant(t)))
                })
                .collect();
            for h in hs {
                h.join().unwrap();
            }
            assert_eq!(a.instant(), Some(Instant(30)), "the watermark must end at the latest reading");
        }),
        "advance-never-lowers" => loom::model(|| {
            EXECS.fetch_add(1, SeqCst);
            let a = Arc::new(AtomicInstant::new(Instant(50)));
            let w = {
                let a = a.clone();
                loom::thread::spawn(move || a.advance_instant(Instant(40)))
            };
            let w2 = {
                let a = a.clone();
                loom::thread::spawn(move || a.advance_instant(Instant(60)))
            };
            let x = a.instant().unwrap();
            assert!(x >= Instant(50), "an earlier reading lowered the watermark to {x:?}");
            w.join().unwrap();
            w2.join().unwrap();
            assert_eq!(a.instant(), Some(Instant(60)));
        }),
        // Control: a check-then-act written by the harness itself on the same object.
        // loom MUST find the lost update; if it does not, the lock inside AtomicInstant
        // is not loom's (the cfg(loom) hook is missing) and nothing above means anything.
        "control-lost-update" => loom::model(|| {
            EXECS.fetch_add(1, SeqCst);
            let a = Arc::new(AtomicInstant::new(Instant(0)));
            let hs: Vec<_> = [10u64, 20]
                .into_iter()
                .map(|t| {
                    let a = a.clone();
                    loom::thread::spawn(move || {
                        let cur = a.instant().unwrap();
                        if cur < Instant(t) {
                            a.set_instant(Instant(t));
                        }
                    })
                })
                .collect();
            for h in hs {
                h.join().unwrap();
            }
            assert_eq!(a.instant(), Some(Instant(20)));
        }),
        other => panic!("unknown scenario {other}"),
    }
}

const SCENARIOS: [&str; 3] = ["two-writers-one-reader", "three-writers", "advance-never-lowers"];

fn main() {
    let args: Vec<String> = std::env::args().collect();
    std::panic::set_hook(Box::new(|_| {}));
    let only = args.get(1).filter(|s| s.as_str() != "all").cloned();
    let t0 = std::time::Instant::now();
    let mut viols: Vec<String> = Vec::new();
    let mut n = 0;
    for s in SCENARIOS {
        if let Some(o) = &only {
            if o != s {
                continue;
            }
        }
        n += 1;
        let r = std::panic::catch_unwind(|| scenario(s));
        if let Err(p) = r {
            let msg = p.downcast_ref::<String>().cloned().or_else(|| p.downcast_ref::<&str>().map(|x| x.to_string())).unwrap_or_default();
            println!("      VIOLATED C07 [loom:valid_after-not-monotonic:{s}]: {msg}");
            println!("      VIOLATED C02 [loom:valid_after-not-monotonic:{s}]: {msg}");
            for prop in ["C07", "C02"] {
                viols.push(format!(
                    "{{\"prop\":{},\"sig\":{},\"detail\":{},\"witness\":{}}}",
                    jstr(prop),
                    jstr(&format!("loom:valid_after-not-monotonic:{s}")),
                    jstr(&format!("loom found an interleaving of AtomicInstant operations in which {msg}")),
                    jstr(&format!("loomx|{s}"))
                ));
            }
        }
    }
    // control scenario: must be violated
    if only.is_none() {
        let before = EXECS.load(SeqCst);
        let r = std::panic::catch_unwind(|| scenario("control-lost-update"));
        if r.is_ok() {
            eprintln!("MACHINERY: loom did not find the lost update of the control scenario ({} executions): the RwLock inside AtomicInstant is not intercepted", EXECS.load(SeqCst) - before);
            std::process::exit(2);
        }
    }
    let execs = EXECS.load(SeqCst);
    println!(
        "{{\"engine\":\"loomx\",\"spec\":\"AtomicInstant (valid_after watermark), LOOM_MAX_PREEMPTIONS={}\",\"states\":{execs},\"transitions\":{execs},\"schedules\":0,\"programs\":{n},\"depth_done\":{n},\"capped\":false,\"outcomes\":{n},\"viol_total\":{},\"violations\":[{}],\"samples\":[\"loomx|two-writers-one-reader: advance_instant(10) || advance_instant(20) || two reads\"],\"wall_s\":{:.3}}}",
        std::env::var("LOOM_MAX_PREEMPTIONS").unwrap_or_else(|_| "unbounded".into()),
        viols.len(),
        viols.join(","),
        t0.elapsed().as_secs_f64()
    );
    if only.is_some() && !viols.is_empty() {
        std::process::exit(1);
    }
}
