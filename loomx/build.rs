// Points the harness at the repository's own source file (so that it is always the
// current working tree that is model checked) and rebuilds when it changes.
fn main() {
    let src = std::env::var("VERIF_REPO_SRC").unwrap_or_else(|_| "/repo/src".to_string());
    let f = format!("{src}/common/concurrent/atomic_time.rs");
    println!("cargo:rustc-env=ATOMIC_TIME_RS={f}");
    println!("cargo:rerun-if-changed={f}");
    println!("cargo:rerun-if-env-changed=VERIF_REPO_SRC");
    println!("cargo::rustc-check-cfg=cfg(loom)");
}
