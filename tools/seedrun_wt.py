#!/usr/bin/env python3
"""Like seedrun.py but never touches /repo: applies the patch in a scratch worktree
and points the checks at it (VERIF_REPO). usage: seedrun_wt.py <dir with patch.diff> <PROP>[,<PROP>...] [tier]"""
import json, os, subprocess, sys
WT="/tmp/wt-seed"; TGT="/tmp/wt-seed-target"
d = sys.argv[1]; props = sys.argv[2].split(","); tier = sys.argv[3] if len(sys.argv) > 3 else "quick"
def sh(cmd, **kw):
    return subprocess.run(cmd, shell=True, stdout=subprocess.PIPE, stderr=subprocess.STDOUT, text=True, **kw)
if not os.path.isdir(WT):
    sh("git -C /repo worktree add --detach %s HEAD" % WT)
else:
    sh("git checkout --detach -f $(git -C /repo rev-parse HEAD)", cwd=WT)
sh("git checkout -f -- .", cwd=WT)
a = sh("git apply %s" % os.path.join(d, "patch.diff"), cwd=WT)
if a.returncode != 0:
    print("PATCH DOES NOT APPLY:", a.stdout[:300]); sys.exit(4)
env = dict(os.environ, VERIF_REPO=WT, VERIF_TARGET_DIR=TGT, VERIF_WORK="/tmp/wt-seed-work", VERIF_EVIDENCE_DIR="/tmp/wt-seed-ev")
res = {}
for p in props:
    r = sh("cd /verif && ./check %s %s" % (p, tier), env=env)
    viol = [l for l in r.stdout.splitlines() if l.startswith("VIOLATION")]
    clauses = [l.strip() for l in r.stdout.splitlines() if l.strip().startswith("clause:")]
    res[p] = {"rc": r.returncode, "violations": len(viol), "clauses": clauses[:6]}
    print(p, "rc=%d" % r.returncode, "violations=%d" % len(viol), clauses[:4])
    if r.returncode == 2:
        print(r.stdout[-1500:])
sh("git checkout -f -- .", cwd=WT)
print(json.dumps(res))
