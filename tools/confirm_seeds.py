#!/usr/bin/env python3
"""Confirms seeded changes in a scratch worktree of /repo's HEAD:
patch applies, suite (35) passes with it, demo fails with it and passes without.
usage: confirm_seeds.py <out.json> <dir>..."""
import json, os, subprocess, sys, re
WT = "/tmp/wt-confirm"
TGT = "/tmp/wt-confirm-target"
def sh(cmd, cwd=None, timeout=1200):
    try:
        return subprocess.run(cmd, shell=True, cwd=cwd, stdout=subprocess.PIPE, stderr=subprocess.STDOUT, text=True, timeout=timeout)
    except subprocess.TimeoutExpired as e:
        class R: pass
        r = R(); r.returncode = 124; r.stdout = (e.stdout or b"").decode() if isinstance(e.stdout, bytes) else (e.stdout or ""); return r
out = {}
if not os.path.isdir(WT):
    sh("git -C /repo worktree add --detach %s HEAD" % WT)
else:
    sh("git checkout --detach -f $(git -C /repo rev-parse HEAD)", cwd=WT)
env = "CARGO_TARGET_DIR=%s CARGO_NET_OFFLINE=true" % TGT
for d in sys.argv[2:]:
    name = os.path.basename(d.rstrip("/"))
    meta = json.load(open(os.path.join(d, "meta.json")))
    test = meta.get("demo_test", "").split("::")[-1]
    rec = {"dir": d, "demo_test": test}
    sh("git checkout -f -- . && git clean -fdq src", cwd=WT)
    a = sh("git apply %s/patch.diff" % d, cwd=WT)
    rec["patch_applies"] = a.returncode == 0
    if a.returncode != 0:
        out[name] = rec; print(name, rec, flush=True); continue
    t = sh("%s cargo test --lib --offline 2>&1 | grep 'test result'" % env, cwd=WT)
    rec["suite_with_patch"] = t.stdout.strip()
    a = sh("git apply %s/demo.diff" % d, cwd=WT)
    rec["demo_applies"] = a.returncode == 0
    if a.returncode == 0:
        t = sh("%s timeout 300 cargo test --lib --offline %s 2>&1 | grep -E 'test result|panicked' | head -3" % (env, test), cwd=WT)
        rec["demo_with_patch"] = t.stdout.strip()[:300]
        sh("git checkout -f -- . ", cwd=WT)
        sh("git apply %s/demo.diff" % d, cwd=WT)
        t = sh("%s timeout 300 cargo test --lib --offline %s 2>&1 | grep 'test result'" % (env, test), cwd=WT)
        rec["demo_without_patch"] = t.stdout.strip()[:200]
    out[name] = rec
    print(name, json.dumps(rec), flush=True)
sh("git checkout -f -- . && git clean -fdq src", cwd=WT)
json.dump(out, open(sys.argv[1], "w"), indent=1)
