#!/usr/bin/env python3
"""For every seeded change: apply it in a scratch worktree of /repo HEAD, run the quick
check of its target property, record the outcome in its meta.json (detected_by).
usage: detect_all.py [names...]"""
import json, os, subprocess, sys, glob
# DETECT_SHARD=i/n: handle every n-th seed in its own scratch worktree (run n of these side by side)
SH = os.environ.get("DETECT_SHARD", "0/1")
SI, SN = [int(x) for x in SH.split("/")]
SUF = "" if SN == 1 else "-%d" % SI
WT="/tmp/wt-detect" + SUF; TGT="/tmp/wt-detect-target" + SUF
def sh(cmd, **kw):
    return subprocess.run(cmd, shell=True, stdout=subprocess.PIPE, stderr=subprocess.STDOUT, text=True, **kw)
if not os.path.isdir(WT):
    sh("git -C /repo worktree add --detach %s HEAD" % WT)
head = sh("git -C /repo rev-parse --short HEAD").stdout.strip()
sh("git checkout --detach -f %s" % head, cwd=WT)
names = sys.argv[1:] or sorted(os.path.basename(d) for d in glob.glob("/verif/seeded/C*"))
names = [n for i, n in enumerate(names) if i % SN == SI]
env = dict(os.environ, VERIF_REPO=WT, VERIF_TARGET_DIR=TGT, VERIF_WORK="/tmp/wt-detect-work" + SUF, VERIF_EVIDENCE_DIR="/tmp/wt-detect-ev" + SUF)
for n in names:
    d = "/verif/seeded/" + n
    prop = n.split("-")[0]
    sh("git checkout -f -- .", cwd=WT)
    a = sh("git apply %s/patch.diff" % d, cwd=WT)
    meta = json.load(open(d + "/meta.json"))
    if a.returncode != 0:
        meta["detected_by"] = {"repo_head": head, "error": "patch.diff does not apply to this HEAD"}
        print(n, "DOES NOT APPLY", flush=True)
    else:
        r = sh("cd /verif && ./check %s quick" % prop, env=env)
        clauses = [l.strip()[8:] for l in r.stdout.splitlines() if l.strip().startswith("clause:")]
        meta["detected_by"] = {"repo_head": head, "check": "./check %s quick" % prop, "exit": r.returncode, "clauses": clauses[:6]}
        print(n, r.returncode, clauses[:3], flush=True)
    json.dump(meta, open(d + "/meta.json", "w"), indent=1)
sh("git checkout -f -- .", cwd=WT)
