#!/usr/bin/env python3
"""Copies the deliverables of one sub-agent (out/<id>/{patch.diff,demo.diff,meta.json}) into
/verif/seeded/<id>/ and records where they came from. usage: import_round.py <outdir> <round> <focus text>"""
import json, os, shutil, sys
out, rnd, focus = sys.argv[1], sys.argv[2], sys.argv[3]
names = []
for n in sorted(os.listdir(out)):
    d = os.path.join(out, n)
    if not (os.path.isdir(d) and os.path.exists(os.path.join(d, "patch.diff")) and os.path.exists(os.path.join(d, "meta.json"))):
        continue
    dst = os.path.join("/verif/seeded", n)
    os.makedirs(dst, exist_ok=True)
    for f in ("patch.diff", "demo.diff"):
        shutil.copy(os.path.join(d, f), os.path.join(dst, f))
    meta = json.load(open(os.path.join(d, "meta.json")))
    meta["origin"] = "round %s: written by an independent sub-agent that saw only the 17 property statements and a scratch worktree (focus: %s)" % (rnd, focus)
    json.dump(meta, open(os.path.join(dst, "meta.json"), "w"), indent=1)
    names.append(n)
print(" ".join(names))
