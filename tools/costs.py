#!/usr/bin/env python3
"""Writes /verif/costs.json from the walls in the evidence files (scheduling hint for ./check:
longest job first). usage: costs.py"""
import glob, json, os
ROOT = os.path.dirname(os.path.dirname(os.path.abspath(__file__)))
path = os.path.join(ROOT, "costs.json")
try:
    out = json.load(open(path))
except Exception:
    out = {}
for f in sorted(glob.glob(os.path.join(ROOT, "evidence", "C*.json"))):
    e = json.load(open(f))
    tier = e.get("tier", "quick")
    for j in e["coverage"].get("per_job", []):
        if j.get("wall_s") is not None:
            d = out.setdefault(tier, {})
            d[j["id"]] = max(round(float(j["wall_s"]), 1), d.get(j["id"], 0) if False else 0)
json.dump(out, open(path, "w"), indent=0, sort_keys=True)
print("wrote", path, {t: len(v) for t, v in out.items()})
