#!/usr/bin/env python3
"""Applies one seeded change to /repo, runs the given checks, reverts.
usage: seedrun.py <dir with patch.diff> <PROP>[,<PROP>...] [tier]"""
import json, os, subprocess, sys
d = sys.argv[1]
props = sys.argv[2].split(",")
tier = sys.argv[3] if len(sys.argv) > 3 else "quick"
patch = os.path.join(d, "patch.diff")
def sh(cmd, **kw):
    return subprocess.run(cmd, shell=True, stdout=subprocess.PIPE, stderr=subprocess.STDOUT, text=True, **kw)
st = sh("git -C /repo status --porcelain --untracked-files=no")
if st.stdout.strip():
    print("REPO NOT CLEAN"); sys.exit(3)
a = sh("git -C /repo apply --check %s" % patch)
if a.returncode != 0:
    print("PATCH DOES NOT APPLY:", a.stdout[:300]); sys.exit(4)
sh("git -C /repo apply %s" % patch)
res = {}
try:
    for p in props:
        r = sh("cd /verif && ./check %s %s" % (p, tier))
        viol = [l for l in r.stdout.splitlines() if l.startswith("VIOLATION")]
        clauses = [l.strip() for l in r.stdout.splitlines() if l.strip().startswith("clause:")]
        res[p] = {"rc": r.returncode, "violations": len(viol), "clauses": clauses[:6], "tail": r.stdout.splitlines()[-1:] }
        print(p, "rc=%d" % r.returncode, "violations=%d" % len(viol), clauses[:4])
        if r.returncode == 2:
            print(r.stdout[-1500:])
finally:
    sh("git -C /repo checkout -- .")
print(json.dumps(res))
