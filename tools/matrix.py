#!/usr/bin/env python3
"""Runs every check (quick) against every seeded change, in a scratch worktree
(never touches /repo). usage: matrix.py <out.json> [seed names...]"""
import json, os, subprocess, sys, glob
WT="/tmp/wt-matrix"; TGT="/tmp/wt-matrix-target"
PROPS=["C%02d"%i for i in range(1,18)]
def sh(cmd, cwd=None, env=None, timeout=3600):
    return subprocess.run(cmd, shell=True, cwd=cwd, env=env, stdout=subprocess.PIPE, stderr=subprocess.STDOUT, text=True, timeout=timeout)
if not os.path.isdir(WT):
    sh("git -C /repo worktree add --detach %s HEAD" % WT)
else:
    sh("git checkout --detach -f $(git -C /repo rev-parse HEAD)", cwd=WT)
seeds = sys.argv[2:] or sorted(os.path.basename(d) for d in glob.glob("/verif/seeded/C*"))
out = {}
if os.path.exists(sys.argv[1]):
    out = json.load(open(sys.argv[1]))
env = dict(os.environ, VERIF_REPO=WT, VERIF_TARGET_DIR=TGT, VERIF_WORK="/tmp/wt-matrix-work", VERIF_EVIDENCE_DIR="/tmp/wt-matrix-ev")
for s in seeds:
    sh("git checkout -f -- .", cwd=WT)
    a = sh("git apply /verif/seeded/%s/patch.diff" % s, cwd=WT)
    if a.returncode != 0:
        out[s] = {"error": "patch does not apply"}; continue
    row = {}
    target = s.split("-")[0]
    order = [target] + [p for p in PROPS if p != target]
    for p in order:
        r = sh("cd /verif && ./check %s quick" % p, env=env)
        clauses = [l.strip()[8:] for l in r.stdout.splitlines() if l.strip().startswith("clause:")]
        row[p] = {"rc": r.returncode, "clauses": clauses[:5]}
    out[s] = row
    print(s, {p: v["rc"] for p, v in row.items()}, flush=True)
    json.dump(out, open(sys.argv[1], "w"), indent=1)
sh("git checkout -f -- .", cwd=WT)
