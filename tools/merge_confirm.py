#!/usr/bin/env python3
"""Merges the records written by confirm_seeds.py into the seeds' meta.json (confirmed_by_me).
usage: merge_confirm.py <confirm.json>..."""
import json, subprocess, sys
head = subprocess.run("git -C /repo rev-parse --short HEAD", shell=True, stdout=subprocess.PIPE, text=True).stdout.strip()
for f in sys.argv[1:]:
    for n, rec in json.load(open(f)).items():
        p = "/verif/seeded/%s/meta.json" % n
        m = json.load(open(p))
        rec = dict(rec); rec.pop("dir", None)
        rec["repo_head"] = head
        rec["how"] = "tools/confirm_seeds.py in a scratch worktree of /repo HEAD (removed afterwards)"
        m["confirmed_by_me"] = rec
        json.dump(m, open(p, "w"), indent=1)
        print(n, "ok")
