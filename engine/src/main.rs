mod cfgx;
mod common;
mod dequex;
mod model;
mod scalex;
mod typex;
mod schedx;
mod seqx;
mod sketchx;
mod sut;

use sut::Cfg;

fn main() {
    // the default panic hook prints to stderr for every caught panic; keep it
    // quiet unless asked (panics inside the cache are verdicts, reported as JSON)
    if std::env::var("MMVERIF_PANIC_TRACE").is_err() {
        std::panic::set_hook(Box::new(|_| {}));
    }
    let args: Vec<String> = std::env::args().collect();
    let cmd = args.get(1).map(|s| s.as_str()).unwrap_or("");
    match cmd {
        "seqx" => {
            common::solo_install();
            let cfg = Cfg::parse(&args[2]);
            let journal = args.get(3).cloned();
            let cap: f64 = std::env::var("MMVERIF_JOB_WALL_S").ok().and_then(|s| s.parse().ok()).unwrap_or(3600.0);
            let r = seqx::run_job(&cfg, journal, cap);
            println!("{}", r.to_json());
        }
        "sketchx" => {
            // sketchx <cap> <start> <nalpha> <depth> [max_states]
            let cap: u32 = args[2].parse().unwrap();
            let nalpha: usize = args[4].parse().unwrap();
            let depth: usize = args[5].parse().unwrap();
            let max_states: usize = args.get(6).and_then(|s| s.parse().ok()).unwrap_or(5_000_000);
            let capw: f64 = std::env::var("MMVERIF_JOB_WALL_S").ok().and_then(|s| s.parse().ok()).unwrap_or(3600.0);
            let r = sketchx::run(cap, &args[3], nalpha, depth, max_states, capw);
            println!("{}", r.to_json());
        }
        "dequex" => {
            // dequex <max_nodes> <depth>
            let n: usize = args[2].parse().unwrap();
            let d: usize = args[3].parse().unwrap();
            let capw: f64 = std::env::var("MMVERIF_JOB_WALL_S").ok().and_then(|s| s.parse().ok()).unwrap_or(3600.0);
            println!("{}", dequex::run(n, d, capw).to_json());
        }
        "schedx" => {
            // schedx <family> <tier> <bound> <part> <parts> [max schedules per program]
            let bound: u32 = args[4].parse().unwrap();
            let part: usize = args[5].parse().unwrap();
            let parts: usize = args[6].parse().unwrap();
            let maxs: u64 = args.get(7).and_then(|s| s.parse().ok()).unwrap_or(2_000_000);
            let capw: f64 = std::env::var("MMVERIF_JOB_WALL_S").ok().and_then(|s| s.parse().ok()).unwrap_or(3600.0);
            match schedx::run_family(&args[2], &args[3], bound, part, parts, maxs, capw) {
                Ok(r) => println!("{}", r.to_json()),
                Err(m) => {
                    eprintln!("MACHINERY: {m}");
                    std::process::exit(2);
                }
            }
        }
        "selftest" => {
            common::solo_install();
            let d: usize = args.get(2).and_then(|s| s.parse().ok()).unwrap_or(3);
            println!("{}", seqx::selftest(d));
        }
        "longrun" => {
            // longrun <spec> <pattern> <n>
            common::solo_install();
            println!("{}", seqx::longrun(&args[2], &args[3], args[4].parse().unwrap()));
        }
        "overshoot" => {
            common::solo_install();
            println!("{}", seqx::overshoot());
        }
        "sketchbig" => {
            let cap: u32 = args[2].parse().unwrap();
            println!("{}", sketchx::aging_big(cap).0);
        }
        "scalex" => {
            println!("{}", scalex::run(args.get(2).map(|s| s.as_str()).unwrap_or("all")));
        }
        "cfgx" => {
            common::solo_install();
            println!("{}", cfgx::run().to_json());
        }
        "replay" => {
            let w = &args[2];
            if !w.starts_with("schedx|") {
                common::solo_install();
            }
            let v = if w.starts_with("seqx|") {
                seqx::replay(w)
            } else if w.starts_with("sketchx|") {
                sketchx::replay(w)
            } else if w.starts_with("longrun|") {
                seqx::longrun_replay(w)
            } else if w.starts_with("cfgx|") {
                let r = cfgx::run();
                for v in &r.violations {
                    println!("      VIOLATED {} [{}]: {}", v.prop, v.sig, v.detail);
                }
                r.violations
            } else if w.starts_with("overshoot|") {
                println!("re-run: mmverif overshoot (the whole family takes well under a second)");
                let out = seqx::overshoot();
                println!("{out}");
                let mut v = Vec::new();
                for sig in ["S:overshoot-beyond-write-queue", "S:resident-weight-above-capacity:after-burst"] {
                    if out.contains(sig) {
                        println!("      VIOLATED C04 [{sig}]: see the JSON line above");
                        v.push(common::Violation { prop: "C04", sig: sig.into(), detail: String::new(), witness: w.to_string() });
                    }
                }
                v
            } else if w.starts_with("sketchbig|") {
                let (json, v) = sketchx::aging_big(w.split('|').nth(1).unwrap().parse().unwrap());
                println!("{json}");
                for x in &v {
                    println!("      VIOLATED {} [{}]: {}", x.prop, x.sig, x.detail);
                }
                v
            } else if w.starts_with("scalex|") {
                scalex::replay(w)
            } else if w.starts_with("schedx|") {
                schedx::replay(w)
            } else if w.starts_with("dequex|") {
                dequex::replay(w)
            } else {
                eprintln!("unknown witness kind");
                std::process::exit(2);
            };
            if v.is_empty() {
                println!("REPLAY: no violation");
            } else {
                println!("REPLAY: {} violation(s)", v.len());
                std::process::exit(1);
            }
        }
        _ => {
            eprintln!("usage: mmverif seqx <spec> [journal] | replay <witness>");
            std::process::exit(2);
        }
    }
}
