//! E3: explicit-state search over the real FrequencySketch (through the facade).
//! State = (table words, size). Transition = increment(h) for h in a hash alphabet
//! chosen by searching for prescribed counter footprints. After every transition
//! the estimates of all alphabet hashes are compared with (a) an exact per-hash
//! count model and (b) a nibble-array reference of the whole table.

use crate::common::*;
use mini_moka::verif::SketchFacade;
use std::collections::{BTreeMap, HashSet};
use std::panic::{catch_unwind, AssertUnwindSafe};
use std::time::Instant;

type Foot = [(usize, u8); 4];

fn foot(s: &SketchFacade, h: u64) -> Foot {
    let mut f = [(0usize, 0u8); 4];
    for d in 0..4u8 {
        f[d as usize] = s.counter_of(h, d);
    }
    f
}

fn shares(a: &Foot, b: &Foot) -> usize {
    a.iter().filter(|c| b.contains(c)).count()
}

struct HashGen(u64);
impl HashGen {
    fn next(&mut self) -> u64 {
        self.0 = self.0.wrapping_mul(0xD6E8_FEB8_6659_FD93).wrapping_add(0x9E37_79B9_7F4A_7C15);
        self.0 ^ (self.0 >> 31)
    }
}

/// Alphabet with prescribed relations to the first hash: disjoint, sharing 1..3
/// counters, identical footprint with a different hash value.
fn pick_alphabet(s: &SketchFacade, n: usize) -> Vec<u64> {
    let mut g = HashGen(0x1234_5678_9abc_def1);
    let h0 = g.next();
    let f0 = foot(s, h0);
    let mut out = vec![h0];
    let wants: [usize; 5] = [0, 4, 1, 2, 3]; // shared counters with h0, in order of preference
    for want in wants {
        if out.len() >= n {
            break;
        }
        for _ in 0..200_000 {
            let h = g.next();
            if out.contains(&h) {
                continue;
            }
            if shares(&foot(s, h), &f0) == want {
                out.push(h);
                break;
            }
        }
    }
    out
}

/// One hash per 4-counter footprint (j,j,j,j) x (h & 3): afterwards every counter
/// of the table is 1, i.e. odd - the extreme of the aging arithmetic.
fn tiling_prefix(s: &SketchFacade, table_len: usize) -> Option<Vec<u64>> {
    let mut g = HashGen(0xfeed_beef_0bad_cafe);
    let mut need: BTreeMap<(usize, u8), Option<u64>> = BTreeMap::new();
    for j in 0..table_len {
        for sel in 0..4u8 {
            need.insert((j, sel), None);
        }
    }
    let mut missing = need.len();
    let mut tries = 0u64;
    while missing > 0 && tries < 40_000_000 {
        tries += 1;
        let h = g.next();
        let f = foot(s, h);
        let j = f[0].0;
        if f.iter().all(|c| c.0 == j) {
            let sel = (h & 3) as u8;
            if let Some(slot) = need.get_mut(&(j, sel)) {
                if slot.is_none() {
                    *slot = Some(h);
                    missing -= 1;
                }
            }
        }
    }
    if missing > 0 {
        return None;
    }
    Some(need.values().map(|h| h.unwrap()).collect())
}

/// Nibble-array reference of the table.
#[derive(Clone)]
struct RefTable {
    nib: Vec<u8>, // table_len * 16
}
impl RefTable {
    fn from_snap(table_len: usize, words: &[(u32, u64)]) -> Self {
        let mut nib = vec![0u8; table_len * 16];
        for (i, w) in words {
            for n in 0..16 {
                nib[*i as usize * 16 + n] = ((w >> (n * 4)) & 0xF) as u8;
            }
        }
        RefTable { nib }
    }
    fn inc(&mut self, f: &Foot) -> bool {
        let mut added = false;
        for (idx, n) in f {
            let c = &mut self.nib[idx * 16 + *n as usize];
            if *c < 15 {
                *c += 1;
                added = true;
            }
        }
        added
    }
    fn halve(&mut self) {
        for c in self.nib.iter_mut() {
            *c >>= 1;
        }
    }
    fn freq(&self, f: &Foot) -> u8 {
        f.iter().map(|(i, n)| self.nib[i * 16 + *n as usize]).min().unwrap()
    }
}

pub struct SketchResult {
    pub cap: u32,
    pub start: String,
    pub table_len: usize,
    pub sample_size: u32,
    pub states: u64,
    pub transitions: u64,
    pub aging_steps_seen: u64,
    pub depth_done: usize,
    pub capped: bool,
    pub outcomes: usize,
    pub violations: Vec<Violation>,
    pub viol_total: u64,
    pub samples: Vec<String>,
    pub wall_s: f64,
}

impl SketchResult {
    pub fn to_json(&self) -> String {
        format!(
            "{{\"engine\":\"sketchx\",\"spec\":{},\"states\":{},\"transitions\":{},\"aging_steps_seen\":{},\"depth_done\":{},\"capped\":{},\"outcomes\":{},\"viol_total\":{},\"violations\":{},\"samples\":{},\"table_len\":{},\"sample_size\":{},\"wall_s\":{:.3}}}",
            jstr(&format!("cap={},start={}", self.cap, self.start)),
            self.states,
            self.transitions,
            self.aging_steps_seen,
            self.depth_done,
            self.capped,
            self.outcomes,
            self.viol_total,
            jlist(&self.violations.iter().map(|v| v.to_json()).collect::<Vec<_>>()),
            jlist(&self.samples.iter().map(|s| jstr(s)).collect::<Vec<_>>()),
            self.table_len,
            self.sample_size,
            self.wall_s
        )
    }
}

fn build(cap: u32, seq: &[u64]) -> SketchFacade {
    let mut s = SketchFacade::new();
    s.ensure_capacity(cap);
    for h in seq {
        s.increment(*h);
    }
    s
}

pub fn witness(cap: u32, seq: &[u64]) -> String {
    format!("sketchx|cap={cap}|{}", seq.iter().map(|h| format!("{h:x}")).collect::<Vec<_>>().join(" "))
}

struct Node {
    seq: Vec<u64>,
    /// exact recorded-lookup count per alphabet hash: saturating at 15, floor-halved by aging
    counts: Vec<u8>,
    /// has this hash ever been incremented (incl. by the prefix: tracked by footprint)
    touched: Vec<bool>,
}

pub fn run(cap: u32, start: &str, nalpha: usize, depth: usize, max_states: usize, wall_cap_s: f64) -> SketchResult {
    let t0 = Instant::now();
    let probe = build(cap, &[]);
    let snap0 = probe.snapshot();
    let mut res = SketchResult {
        cap,
        start: start.to_string(),
        table_len: snap0.table_len,
        sample_size: snap0.sample_size,
        states: 0,
        transitions: 0,
        aging_steps_seen: 0,
        depth_done: 0,
        capped: false,
        outcomes: 0,
        violations: vec![],
        viol_total: 0,
        samples: vec![],
        wall_s: 0.0,
    };
    let alpha = pick_alphabet(&probe, nalpha);
    let feet: Vec<Foot> = alpha.iter().map(|h| foot(&probe, *h)).collect();
    for f in &feet {
        for (i, n) in f {
            if *i >= snap0.table_len || *n >= 16 {
                res.violations.push(Violation { prop: "C08", sig: "sketch:index-out-of-bounds".into(), detail: format!("counter ({i},{n}) outside a table of {} words", snap0.table_len), witness: witness(cap, &[]) });
            }
        }
    }
    let prefix: Vec<u64> = match start {
        "empty" => vec![],
        "tiling" => match tiling_prefix(&probe, snap0.table_len) {
            Some(p) => p,
            None => {
                res.samples.push("no tiling prefix found".into());
                res.wall_s = t0.elapsed().as_secs_f64();
                return res;
            }
        },
        _ => panic!("unknown start {start}"),
    };
    // prefix hashes other than alphabet hashes may share counters with alphabet
    // hashes: the exact-equality clause is only applied to hashes whose footprint
    // is disjoint from everything else that was ever recorded.
    let prefix_feet: Vec<Foot> = prefix.iter().map(|h| foot(&probe, *h)).collect();

    let mut seen: HashSet<u128> = HashSet::new();
    let mut outcomes: HashSet<u64> = HashSet::new();
    let mut sigs: HashSet<String> = HashSet::new();
    let fp = |s: &mini_moka::verif::SketchSnap, counts: &[u8]| -> u128 {
        let mut c = Canon::default();
        c.u32(s.size);
        for (i, w) in &s.table {
            c.u32(*i);
            c.u64(*w);
        }
        c.tag("m");
        for x in counts {
            c.u8(*x);
        }
        fingerprint(&c.0)
    };

    // run the prefix under the oracle too (it can already cross an aging step or panic)
    let mut frontier: Vec<Node> = Vec::new();
    {
        let r = catch_unwind(AssertUnwindSafe(|| build(cap, &prefix).snapshot()));
        match r {
            Ok(s) => {
                let counts: Vec<u8> = alpha.iter().map(|h| prefix.iter().filter(|p| *p == h).count().min(15) as u8).collect();
                if s.resets > 0 {
                    // prefix crossed an aging step: the count model is not valid; skip this start
                    res.samples.push("prefix crosses an aging step".into());
                    res.wall_s = t0.elapsed().as_secs_f64();
                    return res;
                }
                seen.insert(fp(&s, &counts));
                res.states = 1;
                frontier.push(Node { seq: prefix.clone(), counts, touched: alpha.iter().map(|h| prefix.contains(h)).collect() });
            }
            Err(p) => {
                res.viol_total += 1;
                res.violations.push(Violation { prop: "C08", sig: "sketch:panic:increment".into(), detail: format!("increment panicked during the prefix: {}", panic_msg(&p)), witness: witness(cap, &prefix) });
                res.wall_s = t0.elapsed().as_secs_f64();
                return res;
            }
        }
    }

    'levels: for d in 0..depth {
        let mut next = Vec::new();
        for node in &frontier {
            for (ai, h) in alpha.iter().enumerate() {
                if t0.elapsed().as_secs_f64() > wall_cap_s || res.states as usize >= max_states {
                    res.capped = true;
                    break 'levels;
                }
                let mut seq = node.seq.clone();
                seq.push(*h);
                res.transitions += 1;
                let r = catch_unwind(AssertUnwindSafe(|| {
                    let mut s = build(cap, &node.seq);
                    let before = s.snapshot();
                    let fb: Vec<u8> = alpha.iter().map(|x| s.frequency(*x)).collect();
                    s.increment(*h);
                    let after = s.snapshot();
                    let fa: Vec<u8> = alpha.iter().map(|x| s.frequency(*x)).collect();
                    (before, fb, after, fa)
                }));
                let mut viols: Vec<(&'static str, String, String)> = Vec::new();
                let (before, fb, after, fa) = match r {
                    Ok(x) => x,
                    Err(p) => {
                        let msg = panic_msg(&p);
                        let short: String = msg.chars().take(50).collect();
                        viols.push(("C08", format!("sketch:panic:increment:{short}"), format!("increment panicked: {msg}")));
                        viols.push(("C14", format!("sketch:panic:increment:{short}"), format!("aging arithmetic panicked: {msg}")));
                        for (p, s, dt) in viols {
                            res.viol_total += 1;
                            if sigs.insert(format!("{p}{s}")) {
                                res.violations.push(Violation { prop: p, sig: s, detail: dt, witness: witness(cap, &seq) });
                            }
                        }
                        continue;
                    }
                };
                let aged = after.resets > before.resets;
                if aged {
                    res.aging_steps_seen += 1;
                }
                // (b) whole-table reference
                let mut rt = RefTable::from_snap(before.table_len, &before.table);
                let added = rt.inc(&feet[ai]);
                if aged {
                    rt.halve();
                }
                let got = RefTable::from_snap(after.table_len, &after.table);
                if rt.nib != got.nib {
                    viols.push(("C14", format!("sketch:table-delta:aged={aged}"), format!("table after increment differs from the reference (4 counters +1 saturating at 15{}", if aged { ", then every counter floor-halved)" } else { ")" })));
                }
                // aging exactly when the sample is full
                let should_age = added && before.size as u64 + 1 >= before.sample_size as u64;
                if aged != should_age {
                    viols.push(("C14", format!("sketch:aging-time:aged={aged}"), format!("size {} sample_size {} added={added}: aging step {}", before.size, before.sample_size, if aged { "happened" } else { "did not happen" })));
                }
                if after.size >= after.sample_size && after.sample_size > 0 {
                    viols.push(("C14", "sketch:size-out-of-range".into(), format!("size {} >= sample_size {} after an increment (wrapped?)", after.size, after.sample_size)));
                    viols.push(("C08", "sketch:size-out-of-range".into(), format!("size {} >= sample_size {} after an increment (arithmetic wrapped)", after.size, after.sample_size)));
                }
                // (a) per-hash count model
                let mut counts = node.counts.clone();
                let mut touched = node.touched.clone();
                counts[ai] = (counts[ai] + 1).min(15);
                touched[ai] = true;
                if aged {
                    for c in counts.iter_mut() {
                        *c >>= 1;
                    }
                }
                for (i, f) in fa.iter().enumerate() {
                    if *f > 15 {
                        viols.push(("C14", "sketch:estimate-above-15".into(), format!("estimate {f}")));
                    }
                    if *f < counts[i] {
                        viols.push(("C14", format!("sketch:underestimate:aged={aged}"), format!("hash #{i} was recorded {} times (saturating, halved by aging) but its estimate is {f}", counts[i])));
                    }
                    let alone = feet.iter().enumerate().all(|(j, g)| j == i || !touched[j] || shares(&feet[i], g) == 0)
                        && prefix_feet.iter().zip(prefix.iter()).all(|(g, ph)| *ph == alpha[i] || shares(&feet[i], g) == 0);
                    if alone && *f != counts[i] {
                        viols.push(("C14", format!("sketch:inexact-without-collision:aged={aged}"), format!("hash #{i} shares no counter with any other recorded hash, count {} but estimate {f}", counts[i])));
                    }
                    if !aged && *f < fb[i] {
                        viols.push(("C14", "sketch:estimate-dropped-without-aging".into(), format!("estimate of hash #{i} fell from {} to {f} with no aging step", fb[i])));
                    }
                }
                if !aged && fa[ai] != (fb[ai] + 1).min(15) {
                    viols.push(("C14", "sketch:increment-not-counted".into(), format!("estimate {} -> {} after one more recorded lookup", fb[ai], fa[ai])));
                }
                {
                    use std::hash::{Hash, Hasher};
                    let mut hh = std::collections::hash_map::DefaultHasher::new();
                    fa.hash(&mut hh);
                    aged.hash(&mut hh);
                    outcomes.insert(hh.finish());
                }
                if !viols.is_empty() {
                    for (p, s, dt) in viols {
                        res.viol_total += 1;
                        if sigs.insert(format!("{p}{s}")) {
                            res.violations.push(Violation { prop: p, sig: s, detail: dt, witness: witness(cap, &seq) });
                        }
                    }
                    continue;
                }
                if seen.insert(fp(&after, &counts)) {
                    res.states += 1;
                    if res.samples.len() < 2 && d == 2 {
                        res.samples.push(witness(cap, &seq[prefix.len()..]));
                    }
                    next.push(Node { seq, counts, touched });
                }
            }
        }
        res.depth_done = d + 1;
        frontier = next;
        if frontier.is_empty() {
            break;
        }
    }
    if res.samples.is_empty() {
        res.samples.push(witness(cap, &alpha));
    }
    res.outcomes = outcomes.len();
    res.wall_s = t0.elapsed().as_secs_f64();
    res
}

/// Replays one increment sequence from the empty sketch with the same clauses as
/// the search (alphabet = the distinct hashes of the sequence).
pub fn replay(w: &str) -> Vec<Violation> {
    let parts: Vec<&str> = w.split('|').collect();
    let cap: u32 = parts[1].trim_start_matches("cap=").parse().unwrap();
    let seq: Vec<u64> = parts[2].split_whitespace().map(|x| u64::from_str_radix(x, 16).unwrap()).collect();
    println!("sketch capacity {cap}, {} increments", seq.len());
    let probe = build(cap, &[]);
    let mut alpha: Vec<u64> = Vec::new();
    for h in &seq {
        if !alpha.contains(h) {
            alpha.push(*h);
        }
    }
    let feet: Vec<Foot> = alpha.iter().map(|h| foot(&probe, *h)).collect();
    let mut counts = vec![0u8; alpha.len()];
    let mut touched = vec![false; alpha.len()];
    let mut out: Vec<Violation> = Vec::new();
    let mut push = |out: &mut Vec<Violation>, p: &'static str, sig: String, d: String| {
        println!("      VIOLATED {p} [{sig}]: {d}");
        out.push(Violation { prop: p, sig, detail: d, witness: w.to_string() });
    };
    let mut s = SketchFacade::new();
    s.ensure_capacity(cap);
    for (n, h) in seq.iter().enumerate() {
        let ai = alpha.iter().position(|x| x == h).unwrap();
        let before = s.snapshot();
        let fb: Vec<u8> = alpha.iter().map(|x| s.frequency(*x)).collect();
        let r = catch_unwind(AssertUnwindSafe(|| s.increment(*h)));
        if let Err(p) = r {
            let msg = panic_msg(&p);
            let short: String = msg.chars().take(50).collect();
            push(&mut out, "C08", format!("sketch:panic:increment:{short}"), format!("increment panicked: {msg}"));
            push(&mut out, "C14", format!("sketch:panic:increment:{short}"), format!("aging arithmetic panicked: {msg}"));
            return out;
        }
        let after = s.snapshot();
        let fa: Vec<u8> = alpha.iter().map(|x| s.frequency(*x)).collect();
        let aged = after.resets > before.resets;
        println!("  #{n} increment({h:x}) -> size={} aged={aged} estimates={fa:?}", after.size);
        let mut rt = RefTable::from_snap(before.table_len, &before.table);
        let added = rt.inc(&feet[ai]);
        if aged {
            rt.halve();
        }
        if rt.nib != RefTable::from_snap(after.table_len, &after.table).nib {
            push(&mut out, "C14", format!("sketch:table-delta:aged={aged}"), "table after increment differs from the reference".into());
        }
        let should_age = added && before.size as u64 + 1 >= before.sample_size as u64;
        if aged != should_age {
            push(&mut out, "C14", format!("sketch:aging-time:aged={aged}"), format!("size {} sample_size {} added={added}", before.size, before.sample_size));
        }
        if after.size >= after.sample_size && after.sample_size > 0 {
            push(&mut out, "C14", "sketch:size-out-of-range".into(), format!("size {} >= sample_size {}", after.size, after.sample_size));
            push(&mut out, "C08", "sketch:size-out-of-range".into(), format!("size {} >= sample_size {}", after.size, after.sample_size));
        }
        counts[ai] = (counts[ai] + 1).min(15);
        touched[ai] = true;
        if aged {
            for c in counts.iter_mut() {
                *c >>= 1;
            }
        }
        for (i, f) in fa.iter().enumerate() {
            if *f > 15 {
                push(&mut out, "C14", "sketch:estimate-above-15".into(), format!("estimate {f}"));
            }
            if *f < counts[i] {
                push(&mut out, "C14", format!("sketch:underestimate:aged={aged}"), format!("hash #{i} recorded {} times (saturating, halved by aging), estimate {f}", counts[i]));
            }
            let alone = feet.iter().enumerate().all(|(j, g)| j == i || !touched[j] || shares(&feet[i], g) == 0);
            if alone && *f != counts[i] {
                push(&mut out, "C14", format!("sketch:inexact-without-collision:aged={aged}"), format!("hash #{i} collides with nothing recorded, count {} estimate {f}", counts[i]));
            }
            if !aged && *f < fb[i] {
                push(&mut out, "C14", "sketch:estimate-dropped-without-aging".into(), format!("estimate of hash #{i} fell from {} to {f}", fb[i]));
            }
        }
        if !aged && fa[ai] != (fb[ai] + 1).min(15) {
            push(&mut out, "C14", "sketch:increment-not-counted".into(), format!("estimate {} -> {}", fb[ai], fa[ai]));
        }
    }
    out
}

/// Aging of a LARGE table: increments (one fixed pseudo-random hash sequence) up to and
/// past the first aging steps of a sketch whose table has more slots than any chunked
/// sweep would cover at once; the whole table is compared with the nibble-array
/// reference (same increments, halving exactly when the sample is full) right after each
/// aging step and at the end. One fixed history per capacity, not a search.
pub fn aging_big(cap: u32) -> (String, Vec<Violation>) {
    let t0 = Instant::now();
    let w = format!("sketchbig|{cap}");
    let mut viols: Vec<Violation> = Vec::new();
    let r = catch_unwind(AssertUnwindSafe(|| {
        let mut s = SketchFacade::new();
        s.ensure_capacity(cap);
        let snap0 = s.snapshot();
        let mut rf = RefTable::from_snap(snap0.table_len, &[]);
        let sample = snap0.sample_size as u64;
        let mut size = 0u64;
        let mut gen = HashGen(0x1234_5678_9abc_def1);
        let total = sample * 2 + sample / 2;
        let mut agings = 0u32;
        let mut problems: Vec<String> = Vec::new();
        let mut compare = |s: &SketchFacade, rf: &RefTable, size: u64, when: String, problems: &mut Vec<String>| {
            let snap = s.snapshot();
            let got = RefTable::from_snap(snap.table_len, &snap.table);
            let diff = got.nib.iter().zip(rf.nib.iter()).filter(|(a, b)| a != b).count();
            if diff != 0 {
                let too_high = got.nib.iter().zip(rf.nib.iter()).filter(|(a, b)| a > b).count();
                problems.push(format!("{when}: {diff} of {} counters differ from the reference ({too_high} of them higher, i.e. not halved)", got.nib.len()));
            }
            if snap.size as u64 != size {
                problems.push(format!("{when}: size {} where the reference has {size}", snap.size));
            }
        };
        // a hot set is incremented often enough to saturate, the rest spreads over the table
        for i in 0..total {
            let h = if i % 3 == 0 { (i % 64).wrapping_mul(0x9E37_79B9_7F4A_7C15) } else { gen.next() };
            let f = foot(&s, h);
            s.increment(h);
            if rf.inc(&f) {
                size += 1;
                if size >= sample {
                    let odd = rf.nib.iter().filter(|c| **c & 1 == 1).count() as u64;
                    rf.halve();
                    size = (size - (odd >> 2)) >> 1;
                    agings += 1;
                    if problems.len() < 3 {
                        compare(&s, &rf, size, format!("right after aging step {agings} (increment {})", i + 1), &mut problems);
                    }
                }
            }
        }
        if problems.is_empty() {
            compare(&s, &rf, size, format!("after {total} increments"), &mut problems);
        }
        // hashes at the ends of the index arithmetic: for each of the four rows, inputs whose
        // mixed value (hash + seed) * seed lands on 2^64 - 1, 2^64 - 2, 2^64 - 2^32 and
        // 2^64 - 2^16 (every later addition wraps), plus 0, 1 and u64::MAX themselves.
        // (The seeds are the ones of Caffeine's sketch that the code uses; with other seeds
        // these are just ordinary hashes.)
        if problems.is_empty() {
            fn inv(a: u64) -> u64 {
                // Newton iteration for the inverse of an odd number modulo 2^64
                let mut x = a;
                for _ in 0..6 {
                    x = x.wrapping_mul(2u64.wrapping_sub(a.wrapping_mul(x)));
                }
                x
            }
            let seeds = [0xc3a5_c85c_97cb_3127u64, 0xb492_b66f_be98_f273, 0x9ae1_6a3b_2f90_404f, 0xcbf2_9ce4_8422_2325];
            let mut edge: Vec<u64> = vec![0, 1, u64::MAX, u64::MAX - 1, 1 << 63, (1 << 63) - 1];
            for sd in seeds {
                for x in [u64::MAX, u64::MAX - 1, 0u64.wrapping_sub(1 << 32), 0u64.wrapping_sub(1 << 16), 0xFFFF_FFFF_7FFF_FFFF] {
                    edge.push(x.wrapping_mul(inv(sd)).wrapping_sub(sd));
                }
            }
            for h in edge {
                let f = foot(&s, h);
                let before = s.frequency(h);
                s.increment(h);
                if rf.inc(&f) {
                    size += 1;
                    if size >= sample {
                        let odd = rf.nib.iter().filter(|c| **c & 1 == 1).count() as u64;
                        rf.halve();
                        size = (size - (odd >> 2)) >> 1;
                    }
                }
                let after = s.frequency(h);
                if after != rf.freq(&f) {
                    problems.push(format!("edge hash {h:#x}: estimate {after} (was {before}) where the reference has {}", rf.freq(&f)));
                    break;
                }
            }
        }
        // asking again for a capacity the table already covers (the same, a smaller one, 0)
        // changes nothing: not the table, not its geometry, not one estimate
        if problems.is_empty() {
            let probes: Vec<u64> = (0..64u64).map(|i| i.wrapping_mul(0x9E37_79B9_7F4A_7C15)).collect();
            let before: Vec<u8> = probes.iter().map(|h| s.frequency(*h)).collect();
            for c2 in [cap, cap / 2, 1, 0] {
                s.ensure_capacity(c2);
                let snap = s.snapshot();
                let after: Vec<u8> = probes.iter().map(|h| s.frequency(*h)).collect();
                if snap.table_len != snap0.table_len || snap.sample_size != snap0.sample_size || after != before {
                    problems.push(format!(
                        "ensure_capacity({c2}) on a sketch of capacity {cap} changed it: table {} -> {} words, sample size {} -> {}, {} of 64 probed estimates differ",
                        snap0.table_len,
                        snap.table_len,
                        snap0.sample_size,
                        snap.sample_size,
                        after.iter().zip(before.iter()).filter(|(a, b)| a != b).count()
                    ));
                    break;
                }
            }
            if problems.is_empty() {
                compare(&s, &rf, size, "after asking for smaller capacities".to_string(), &mut problems);
            }
        }
        (snap0.table_len, sample, total, agings, problems)
    }));
    let (table_len, sample, total, agings) = match r {
        Ok((tl, sa, to, ag, problems)) => {
            for p in problems.into_iter().take(1) {
                viols.push(Violation { prop: "C14", sig: "sketch:big-table-aging".into(), detail: format!("capacity {cap}, table of {tl} words: {p}"), witness: w.clone() });
            }
            (tl, sa, to, ag)
        }
        Err(p) => {
            viols.push(Violation { prop: "C08", sig: "sketch:panic:big-table".into(), detail: format!("capacity {cap}: {}", panic_msg(&p)), witness: w.clone() });
            (0, 0, 0, 0)
        }
    };
    let json = format!(
        "{{\"engine\":\"sketchbig\",\"spec\":{},\"states\":{},\"transitions\":{total},\"aging_steps_seen\":{agings},\"depth_done\":{total},\"capped\":false,\"outcomes\":1,\"viol_total\":{},\"violations\":{},\"samples\":{},\"table_len\":{table_len},\"sample_size\":{sample},\"wall_s\":{:.3}}}",
        jstr(&format!("big-table aging, cap={cap}")),
        agings.max(1),
        viols.len(),
        jlist(&viols.iter().map(|v| v.to_json()).collect::<Vec<_>>()),
        jlist(&[jstr(&w)]),
        t0.elapsed().as_secs_f64()
    );
    (json, viols)
}
