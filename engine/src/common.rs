//! Shared harness types: drop-tracked key/value types, the table-driven
//! deterministic hasher, fingerprints, tiny JSON helpers.

use std::hash::{BuildHasher, Hash, Hasher};
use std::sync::atomic::{AtomicI64, AtomicU32, AtomicU8, Ordering::SeqCst};
use std::sync::Mutex;

// ---------------------------------------------------------------------------
// Drop tracking
// ---------------------------------------------------------------------------

const TRACK_SLOTS: usize = 1 << 16;
pub const UNTRACKED: u32 = u32::MAX;

pub struct Tracker {
    next: AtomicU32,
    slots: Vec<AtomicU8>, // 0 unused, 1 live, 2 dropped
    pub live_k: AtomicI64,
    pub live_v: AtomicI64,
    pub created_v: AtomicI64,
    problems: Mutex<Vec<String>>,
}

impl Tracker {
    fn new() -> Self {
        Self {
            next: AtomicU32::new(0),
            slots: (0..TRACK_SLOTS).map(|_| AtomicU8::new(0)).collect(),
            live_k: AtomicI64::new(0),
            live_v: AtomicI64::new(0),
            created_v: AtomicI64::new(0),
            problems: Mutex::new(Vec::new()),
        }
    }

    pub fn reset(&self) {
        let n = (self.next.swap(0, SeqCst) as usize).min(TRACK_SLOTS);
        for s in &self.slots[..n] {
            s.store(0, SeqCst);
        }
        self.live_k.store(0, SeqCst);
        self.live_v.store(0, SeqCst);
        self.created_v.store(0, SeqCst);
        self.problems.lock().unwrap().clear();
    }

    fn alloc(&self, what: &str) -> u32 {
        let id = self.next.fetch_add(1, SeqCst);
        if (id as usize) >= TRACK_SLOTS {
            self.problem(format!("tracker exhausted allocating a {what}"));
            return UNTRACKED;
        }
        self.slots[id as usize].store(1, SeqCst);
        id
    }

    fn release(&self, id: u32, what: &str) {
        if id == UNTRACKED {
            return;
        }
        let prev = self.slots[id as usize].swap(2, SeqCst);
        if prev != 1 {
            self.problem(format!(
                "{what} instance #{id} dropped while in state {prev} (1=live, 2=already dropped, 0=never created)"
            ));
        }
    }

    fn problem(&self, s: String) {
        if let Ok(mut p) = self.problems.lock() {
            p.push(s);
        }
    }

    pub fn take_problems(&self) -> Vec<String> {
        std::mem::take(&mut *self.problems.lock().unwrap())
    }

    pub fn live(&self) -> (i64, i64) {
        (self.live_k.load(SeqCst), self.live_v.load(SeqCst))
    }
}

pub fn tracker() -> &'static Tracker {
    static T: std::sync::OnceLock<Tracker> = std::sync::OnceLock::new();
    T.get_or_init(Tracker::new)
}

/// Cache key: identity is `k`; `inst` is the drop-tracking instance number.
#[derive(Debug)]
pub struct K {
    pub k: u8,
    inst: u32,
}

impl K {
    /// A tracked key (what is handed to `insert`).
    pub fn new(k: u8) -> Self {
        let t = tracker();
        t.live_k.fetch_add(1, SeqCst);
        Self {
            k,
            inst: t.alloc("key"),
        }
    }
    /// An untracked key for lookups.
    pub const fn probe(k: u8) -> Self {
        Self { k, inst: UNTRACKED }
    }
}

impl Drop for K {
    fn drop(&mut self) {
        if self.inst != UNTRACKED {
            let t = tracker();
            t.live_k.fetch_sub(1, SeqCst);
            t.release(self.inst, "key");
        }
    }
}

impl PartialEq for K {
    fn eq(&self, o: &Self) -> bool {
        self.k == o.k
    }
}
impl Eq for K {}
impl Hash for K {
    fn hash<H: Hasher>(&self, h: &mut H) {
        h.write_u8(self.k)
    }
}

/// Cache value: `id` identifies the insert that produced it, `w` is what the
/// by-value weigher returns.
#[derive(Debug)]
pub struct V {
    pub id: u32,
    pub w: u32,
    inst: u32,
}

impl V {
    pub fn new(id: u32, w: u32) -> Self {
        let t = tracker();
        t.live_v.fetch_add(1, SeqCst);
        t.created_v.fetch_add(1, SeqCst);
        Self {
            id,
            w,
            inst: t.alloc("value"),
        }
    }
}

/// Message prefix of the panics raised by the harness's own callbacks (weigher, predicate,
/// `Clone` of a value): the only panics a caller may see besides the documented ones.
pub const CB_MARK: &str = "harness-callback-panic";
/// A value the by-value weigher refuses to weigh (it panics).
pub const W_WEIGH_PANICS: u32 = 4_000_000_001;
/// A value whose `Clone` panics (the by-value weigher gives it 1).
pub const W_CLONE_PANICS: u32 = 4_000_000_002;

/// The by-value weigher of the search engines.
pub fn weigh_v(v: &V) -> u32 {
    match v.w {
        W_WEIGH_PANICS => panic!("{CB_MARK}: weigher"),
        W_CLONE_PANICS => 1,
        w => w,
    }
}

/// While set, `Clone` of every value panics (a lookup of the concurrent cache whose clone of
/// the stored value fails; sequential engines only).
pub static CLONE_PANICS_NOW: std::sync::atomic::AtomicBool = std::sync::atomic::AtomicBool::new(false);

impl Clone for V {
    fn clone(&self) -> Self {
        if self.w == W_CLONE_PANICS || CLONE_PANICS_NOW.load(SeqCst) {
            panic!("{CB_MARK}: clone");
        }
        V::new(self.id, self.w)
    }
}

/// While set, `Drop` of the next value that is dropped panics - once: the flag clears itself,
/// so that a second drop during the unwinding cannot turn the panic into an abort (a value
/// type whose destructor fails; the caller catches the panic and goes on using the cache).
pub static DROP_PANICS_NOW: std::sync::atomic::AtomicBool = std::sync::atomic::AtomicBool::new(false);

impl Drop for V {
    fn drop(&mut self) {
        let t = tracker();
        t.live_v.fetch_sub(1, SeqCst);
        t.release(self.inst, "value");
        if DROP_PANICS_NOW.swap(false, SeqCst) && !std::thread::panicking() {
            panic!("{CB_MARK}: drop");
        }
    }
}

// ---------------------------------------------------------------------------
// Deterministic hasher: key i -> table[i]
// ---------------------------------------------------------------------------

pub const MAX_KEYS: usize = 24;

#[derive(Clone, Copy, Debug, PartialEq, Eq)]
pub struct TableHasher {
    pub table: [u64; MAX_KEYS],
}

pub struct TableHash {
    table: [u64; MAX_KEYS],
    k: u8,
}

impl BuildHasher for TableHasher {
    type Hasher = TableHash;
    fn build_hasher(&self) -> TableHash {
        TableHash {
            table: self.table,
            k: 0,
        }
    }
}

impl Hasher for TableHash {
    fn write(&mut self, bytes: &[u8]) {
        if let Some(b) = bytes.first() {
            self.k = *b;
        }
    }
    fn write_u8(&mut self, b: u8) {
        self.k = b;
    }
    fn finish(&self) -> u64 {
        hash_of_key(&self.table, self.k)
    }
}

/// Hash of key `k`: the table entry for the first MAX_KEYS keys; beyond that (long
/// scripted histories) a deterministic mix, unless the table is the all-equal one.
pub fn hash_of_key(table: &[u64; MAX_KEYS], k: u8) -> u64 {
    let base = table[k as usize % MAX_KEYS];
    if (k as usize) < MAX_KEYS || table[0] == table[1] {
        base
    } else {
        let x = base ^ (k as u64).wrapping_mul(0x9E37_79B9_7F4A_7C15);
        x.wrapping_mul(0xD6E8_FEB8_6659_FD93) ^ (x >> 29)
    }
}

impl TableHasher {
    pub fn hash_of(&self, k: u8) -> u64 {
        hash_of_key(&self.table, k)
    }
}

#[derive(Clone, Copy, Debug, PartialEq, Eq)]
pub enum HashKind {
    /// distinct hashes with pairwise disjoint counter footprints in a 128 word
    /// sketch; keys spread over the DashMap shards
    Spread,
    /// every key has the same 64-bit hash: same sketch counters, same shard,
    /// same hashbrown probe sequence
    Collide,
    /// distinct hashes, all in the same DashMap shard (for 4 shards), disjoint
    /// sketch footprints
    SameShard,
}

impl HashKind {
    pub fn name(&self) -> &'static str {
        match self {
            HashKind::Spread => "spread",
            HashKind::Collide => "collide",
            HashKind::SameShard => "sameshard",
        }
    }
    pub fn parse(s: &str) -> Self {
        match s {
            "spread" => HashKind::Spread,
            "collide" => HashKind::Collide,
            "sameshard" => HashKind::SameShard,
            _ => panic!("unknown hasher {s}"),
        }
    }
}

/// Which DashMap shard (of `shards`, a power of two) a hash goes to.
pub fn shard_of(hash: u64, shards: usize) -> usize {
    let shift = 64 - shards.trailing_zeros() as u64;
    (((hash as usize) << 7) >> shift) as usize
}

/// Computes the hash table for a hasher kind by a deterministic search against the
/// real sketch's index function (through the facade), so that the claimed
/// footprint relations are facts about the implementation, not assumptions.
pub fn make_hasher(kind: HashKind) -> TableHasher {
    use mini_moka::verif::SketchFacade;
    let mut sk = SketchFacade::new();
    sk.ensure_capacity(128);
    let foot = |h: u64| -> [(usize, u8); 4] {
        let mut f = [(0usize, 0u8); 4];
        for d in 0..4u8 {
            f[d as usize] = sk.counter_of(h, d);
        }
        f
    };
    let mut table = [0u64; MAX_KEYS];
    match kind {
        HashKind::Collide => {
            let h = 0x5bd1_e995_9e37_79b9u64;
            for t in table.iter_mut() {
                *t = h;
            }
        }
        HashKind::Spread | HashKind::SameShard => {
            let mut used: Vec<(usize, u8)> = Vec::new();
            let mut x: u64 = 0x9E37_79B9_7F4A_7C15;
            for (i, t) in table.iter_mut().enumerate() {
                loop {
                    x = x
                        .wrapping_mul(0xD6E8_FEB8_6659_FD93)
                        .wrapping_add(0x2545_F491_4F6C_DD1D);
                    let h = x ^ (x >> 29);
                    let f = foot(h);
                    if f.iter().any(|c| used.contains(c)) {
                        continue;
                    }
                    let shard = shard_of(h, 4);
                    let want = match kind {
                        HashKind::Spread => i % 4,
                        _ => 1,
                    };
                    if shard != want {
                        continue;
                    }
                    used.extend_from_slice(&f);
                    *t = h;
                    break;
                }
            }
        }
    }
    TableHasher { table }
}

// ---------------------------------------------------------------------------
// Fingerprints
// ---------------------------------------------------------------------------

/// 128-bit fingerprint of a canonical byte string (two independent SipHash runs).
pub fn fingerprint(bytes: &[u8]) -> u128 {
    use std::collections::hash_map::DefaultHasher;
    let mut a = DefaultHasher::new();
    a.write_u64(0x0123_4567_89ab_cdef);
    a.write(bytes);
    let mut b = DefaultHasher::new();
    b.write_u64(0xfeed_face_dead_beef);
    b.write(bytes);
    b.write_u8(0x5a);
    ((a.finish() as u128) << 64) | b.finish() as u128
}

/// Byte sink for canonical forms.
#[derive(Default)]
pub struct Canon(pub Vec<u8>);
impl Canon {
    pub fn u8(&mut self, v: u8) {
        self.0.push(v)
    }
    pub fn u32(&mut self, v: u32) {
        self.0.extend_from_slice(&v.to_le_bytes())
    }
    pub fn u64(&mut self, v: u64) {
        self.0.extend_from_slice(&v.to_le_bytes())
    }
    pub fn i64(&mut self, v: i64) {
        self.0.extend_from_slice(&v.to_le_bytes())
    }
    pub fn tag(&mut self, t: &str) {
        self.0.extend_from_slice(t.as_bytes());
        self.0.push(0);
    }
}

// ---------------------------------------------------------------------------
// JSON (hand written; no crates)
// ---------------------------------------------------------------------------

pub fn jstr(s: &str) -> String {
    let mut o = String::with_capacity(s.len() + 2);
    o.push('"');
    for c in s.chars() {
        match c {
            '"' => o.push_str("\\\""),
            '\\' => o.push_str("\\\\"),
            '\n' => o.push_str("\\n"),
            '\r' => o.push_str("\\r"),
            '\t' => o.push_str("\\t"),
            c if (c as u32) < 0x20 => o.push_str(&format!("\\u{:04x}", c as u32)),
            c => o.push(c),
        }
    }
    o.push('"');
    o
}

pub fn jlist(items: &[String]) -> String {
    format!("[{}]", items.join(","))
}

/// A violation as reported by any engine.
#[derive(Clone, Debug)]
pub struct Violation {
    pub prop: &'static str,
    /// short machine-readable clause / call-site discriminator; together with
    /// `prop` this is what the known-findings file matches on
    pub sig: String,
    /// human readable: expected vs observed
    pub detail: String,
    /// the replayable witness (history / schedule), engine specific text
    pub witness: String,
}

impl Violation {
    pub fn to_json(&self) -> String {
        format!(
            "{{\"prop\":{},\"sig\":{},\"detail\":{},\"witness\":{}}}",
            jstr(self.prop),
            jstr(&self.sig),
            jstr(&self.detail),
            jstr(&self.witness)
        )
    }
}

/// Panic message extraction for catch_unwind payloads.
pub fn panic_msg(p: &Box<dyn std::any::Any + Send>) -> String {
    if let Some(s) = p.downcast_ref::<&str>() {
        s.to_string()
    } else if let Some(s) = p.downcast_ref::<String>() {
        s.clone()
    } else {
        "<non-string panic payload>".to_string()
    }
}


// ---------------------------------------------------------------------------
// Single-thread scheduler for the sequential engines: with one thread a lock that is
// not free can never become free (self-deadlock), a retry loop that waits for another
// thread never ends, and an operation that passes millions of instrumented points is
// in an unbounded loop. Instead of hanging the worker these become panics with a
// recognisable message, which the step oracle turns into C09 violations.
// ---------------------------------------------------------------------------

pub const SOLO_DEADLOCK: &str = "MMVERIF-SELF-DEADLOCK";
pub const SOLO_LIVELOCK: &str = "MMVERIF-SELF-LIVELOCK";
const SOLO_MAX_EVENTS: u64 = 3_000_000;
const SOLO_MAX_YIELDS: u64 = 20_000;

thread_local! {
    static SOLO_EVENTS: std::cell::Cell<u64> = const { std::cell::Cell::new(0) };
    static SOLO_YIELDS: std::cell::Cell<u64> = const { std::cell::Cell::new(0) };
}

pub struct SoloSched;

impl mini_moka::verif::Sched for SoloSched {
    fn event(&self, ev: mini_moka::verif::Event<'_>) {
        use mini_moka::verif::Event;
        match ev {
            Event::Switch(label) => {
                let n = SOLO_EVENTS.with(|c| {
                    c.set(c.get() + 1);
                    c.get()
                });
                if n > SOLO_MAX_EVENTS {
                    SOLO_EVENTS.with(|c| c.set(0));
                    std::panic::panic_any(format!("{SOLO_LIVELOCK} more than {SOLO_MAX_EVENTS} instrumented points in one call (last: {label})"));
                }
            }
            Event::Block(label, probe) => {
                if !probe() {
                    std::panic::panic_any(format!("{SOLO_DEADLOCK} at {label}: the calling thread itself holds the lock it is about to take"));
                }
            }
            Event::Yield(label) => {
                let n = SOLO_YIELDS.with(|c| {
                    c.set(c.get() + 1);
                    c.get()
                });
                if n > SOLO_MAX_YIELDS {
                    SOLO_YIELDS.with(|c| c.set(0));
                    std::panic::panic_any(format!("{SOLO_LIVELOCK} {SOLO_MAX_YIELDS} retries at {label} without progress and no other thread exists"));
                }
            }
        }
    }
}

/// Installs the single-thread scheduler for the calling thread.
pub fn solo_install() {
    mini_moka::verif::install_sched(Some(std::sync::Arc::new(SoloSched)));
}

/// Resets the per-call budgets (called before every operation).
pub fn solo_reset() {
    SOLO_EVENTS.with(|c| c.set(0));
    SOLO_YIELDS.with(|c| c.set(0));
}
