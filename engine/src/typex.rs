//! E1d `types`: the search engines use one small key type (looked up through the same
//! type) and one value type. This family runs one fixed 1 500-step history per
//! (key type, value type, configuration) on both caches, built the
//! way applications build them (`RandomState`, `build()`), and compares every lookup,
//! every iteration and the counters with a plain map. The configurations exert no
//! capacity pressure (no `max_capacity`, or one far above the total weight), so what
//! the cache must answer does not depend on the hash values: with `RandomState` the
//! verdict is still deterministic. Enumeration of a small parametric family of scripted
//! histories, not sampling; reported as such.

use crate::common::*;
use crate::scalex::Scenario;
use mini_moka::sync::ConcurrentCacheExt;
use std::collections::HashMap;
use std::fmt::Debug;
use std::hash::Hash;
use std::sync::Arc;
use std::time::Duration;

/// "types" normally, "types1cpu" while the process is pinned to a single CPU
static PREFIX: std::sync::Mutex<&'static str> = std::sync::Mutex::new("types");

fn prefix() -> &'static str {
    *PREFIX.lock().unwrap()
}

extern "C" {
    fn sched_getaffinity(pid: i32, cpusetsize: usize, mask: *mut u64) -> i32;
    fn sched_setaffinity(pid: i32, cpusetsize: usize, mask: *const u64) -> i32;
}

/// Restricts the calling thread to the first CPU it is allowed to run on (what
/// `taskset -c N` or a one-CPU container does); returns the previous mask.
fn pin_one_cpu() -> Option<[u64; 16]> {
    let mut old = [0u64; 16];
    if unsafe { sched_getaffinity(0, 128, old.as_mut_ptr()) } != 0 {
        return None;
    }
    let mut one = [0u64; 16];
    for (i, w) in old.iter().enumerate() {
        if *w != 0 {
            one[i] = 1u64 << w.trailing_zeros();
            break;
        }
    }
    if unsafe { sched_setaffinity(0, 128, one.as_ptr()) } != 0 {
        return None;
    }
    Some(old)
}

/// length of the scripted history (1 500; 400 000 for the `longlife` scenarios)
static STEPS_NOW: std::sync::atomic::AtomicU32 = std::sync::atomic::AtomicU32::new(STEPS);

fn steps() -> u32 {
    STEPS_NOW.load(std::sync::atomic::Ordering::Relaxed)
}

const NKEYS: u32 = 24;
const STEPS: u32 = 1500;
const TTL_TICKS: u64 = 10;

#[derive(Clone, Copy, PartialEq)]
enum Conf {
    Unbounded,
    Roomy,
    RoomyWeighed,
    Ttl,
    /// no mock clock installed (the cache reads `Instant::now()`), the library's default
    /// number of map shards; nothing can expire within the run (ttl and tti of one hour)
    RealClock,
    /// the same with a roomy capacity and the weigher
    RealClockRoomy,
}

impl Conf {
    fn name(self) -> &'static str {
        match self {
            Conf::Unbounded => "unbounded",
            Conf::Roomy => "cap100000",
            Conf::RoomyWeighed => "cap100000-weigher",
            Conf::Ttl => "ttl10",
            Conf::RealClock => "realclock-ttl1h-tti1h",
            Conf::RealClockRoomy => "realclock-cap100000-weigher-ttl1h",
        }
    }
    fn real(self) -> bool {
        matches!(self, Conf::RealClock | Conf::RealClockRoomy)
    }
    fn weighed(self) -> bool {
        matches!(self, Conf::RoomyWeighed | Conf::RealClockRoomy)
    }
}

struct Lcg(u64);
impl Lcg {
    fn next(&mut self) -> u32 {
        self.0 = self.0.wrapping_mul(6364136223846793005).wrapping_add(1442695040888963407);
        (self.0 >> 33) as u32
    }
}

/// What the script does at step i (the same for every type and both caches).
#[derive(Debug, Clone, Copy)]
enum Step {
    Ins(u32),
    Get(u32),
    Con(u32),
    Inv(u32),
    Iter,
    InvAll,
    Sync,
    Adv,
}

fn script(steps: u32) -> Vec<Step> {
    let mut g = Lcg(0x5eed_0017);
    let mut out = Vec::new();
    for i in 0..steps {
        let r = g.next();
        let k = g.next() % NKEYS;
        out.push(match r % 20 {
            0..=6 => Step::Ins(k),
            7..=11 => Step::Get(k),
            12..=13 => Step::Con(k),
            14..=15 => Step::Inv(k),
            16 => Step::Iter,
            17 => Step::Sync,
            18 => Step::Adv,
            _ => {
                if i % 7 == 0 {
                    Step::InvAll
                } else {
                    Step::Get(k)
                }
            }
        });
    }
    out
}

struct Ref {
    /// key index -> (value index, tick of the insert)
    m: HashMap<u32, (u32, u64)>,
    now: u64,
    ttl: Option<u64>,
}

impl Ref {
    fn get(&self, k: u32) -> Option<u32> {
        match self.m.get(&k) {
            Some(&(v, t)) if self.ttl.map(|d| self.now < t + d).unwrap_or(true) => Some(v),
            _ => None,
        }
    }
    fn live(&self) -> Vec<(u32, u32)> {
        let mut v: Vec<(u32, u32)> = (0..NKEYS).filter_map(|k| self.get(k).map(|x| (k, x))).collect();
        v.sort();
        v
    }
}

fn weight_of_idx(v: u32) -> u32 {
    1 + v % 3
}

fn viol(prop: &'static str, sig: &str, detail: String, name: &str) -> Violation {
    Violation { prop, sig: sig.to_string(), detail, witness: format!("scalex|{name}") }
}

/// Reports a lookup mismatch under every property that promises the answer.
fn mismatch(out: &mut Vec<Violation>, name: &str, what: &str, i: usize, st: Step, got: String, want: String, phantom: bool) {
    let d = format!("step {i} {st:?}: {what} answered {got}, a map with the same history answers {want}");
    if phantom {
        out.push(viol("C01", &format!("types:{what}:not-the-latest-live-value"), d.clone(), name));
        out.push(viol("C07", &format!("types:{what}:not-the-latest-live-value"), d.clone(), name));
        out.push(viol("C05", &format!("types:{what}:not-the-latest-live-value"), d.clone(), name));
        out.push(viol("C16", &format!("types:{what}:not-the-latest-live-value"), d, name));
    } else {
        out.push(viol("C03", &format!("types:{what}:live-entry-missing"), d.clone(), name));
        out.push(viol("C01", &format!("types:{what}:live-entry-missing"), d.clone(), name));
        out.push(viol("C16", &format!("types:{what}:live-entry-missing"), d, name));
    }
}

fn sync_scn<K, V>(tyname: &str, conf: Conf, mk: fn(u32) -> K, mv: fn(u32) -> V, idx_of_v: fn(&V) -> u32, idx_of_k: fn(&K) -> u32) -> Scenario
where
    K: Hash + Eq + Send + Sync + Clone + Debug + 'static,
    V: Clone + Send + Sync + 'static,
{
    let name: &'static str = Box::leak(format!("{}:S:{tyname}:{}", prefix(), conf.name()).into_boxed_str());
    let mut out = Vec::new();
    let r = std::panic::catch_unwind(std::panic::AssertUnwindSafe(|| {
        let mut b = mini_moka::sync::Cache::<K, V>::builder();
        if matches!(conf, Conf::Roomy | Conf::RoomyWeighed | Conf::RealClockRoomy) {
            b = b.max_capacity(100_000);
        }
        if conf.real() {
            b = b.time_to_live(Duration::from_secs(3600));
            if conf == Conf::RealClock {
                b = b.time_to_idle(Duration::from_secs(3600));
            }
        }
        if conf.weighed() {
            b = b.weigher(move |_k: &K, v: &V| weight_of_idx(idx_of_v(v)));
        }
        if conf == Conf::Ttl {
            b = b.time_to_live(Duration::from_millis(TTL_TICKS * 1000));
        }
        mini_moka::verif::set_shard_amount(if conf.real() { 0 } else { 4 });
        let c = b.build();
        mini_moka::verif::set_shard_amount(4);
        let clock = if conf.real() { None } else { Some(c.verif_install_mock_clock()) };
        let mut m = Ref { m: HashMap::new(), now: 0, ttl: if conf == Conf::Ttl { Some(TTL_TICKS) } else { None } };
        let mut vid = 0u32;
        let mut viols: Vec<Violation> = Vec::new();
        for (i, st) in script(steps()).into_iter().enumerate() {
            if viols.len() > 4 {
                break;
            }
            match st {
                Step::Ins(k) => {
                    vid += 1;
                    c.insert(mk(k), mv(vid));
                    m.m.insert(k, (vid, m.now));
                }
                Step::Get(k) => {
                    let key = mk(k);
                    let got = c.get(&key).map(|v| idx_of_v(&v));
                    let want = m.get(k);
                    if got != want {
                        mismatch(&mut viols, name, "get", i, st, format!("{got:?}"), format!("{want:?}"), got.is_some());
                    }
                }
                Step::Con(k) => {
                    let key = mk(k);
                    let got = c.contains_key(&key);
                    let want = m.get(k).is_some();
                    if got != want {
                        mismatch(&mut viols, name, "contains_key", i, st, format!("{got}"), format!("{want}"), got);
                    }
                }
                Step::Inv(k) => {
                    let key = mk(k);
                    c.invalidate(&key);
                    m.m.remove(&k);
                }
                Step::Iter => {
                    let mut got: Vec<(u32, u32)> = c.iter().map(|e| (idx_of_k(e.key()), idx_of_v(e.value()))).collect();
                    got.sort();
                    let want = m.live();
                    if got != want {
                        let phantom = got.iter().any(|x| !want.contains(x));
                        mismatch(&mut viols, name, "iteration", i, st, format!("{got:?}"), format!("{want:?}"), phantom);
                    }
                }
                Step::InvAll => {
                    // (at a strictly later reading than every insert so far)
                    match &clock {
                        Some(cl) => cl.advance(Duration::from_millis(1000)),
                        None => std::thread::sleep(Duration::from_millis(1)),
                    }
                    m.now += 1;
                    c.invalidate_all();
                    m.m.clear();
                }
                Step::Sync => {
                    c.sync();
                    c.sync();
                    let want = m.live();
                    let held = c.verif_snapshot(|_| 0, |_| 0).entries.len() as u64;
                    let (ec, ws) = (c.entry_count(), c.weighted_size());
                    let want_ws: u64 = want.iter().map(|(_, v)| if conf.weighed() { weight_of_idx(*v) as u64 } else { 1 }).sum();
                    // expired-but-unpurged entries may still be counted; without expiry
                    // the counters are exactly what iteration yields
                    if conf != Conf::Ttl && !conf.real() && (ec != want.len() as u64 || ws != want_ws) {
                        viols.push(viol("C10", "types:counters!=live-entries", format!("step {i}: after sync() entry_count {ec} weighted_size {ws}, but {} live entries of total weight {want_ws}", want.len()), name));
                    }
                    if ec != held {
                        viols.push(viol("C10", "types:entry_count!=held", format!("step {i}: after sync() entry_count {ec} but the map holds {held} entries"), name));
                    }
                }
                Step::Adv => {
                    match &clock {
                        Some(cl) => cl.advance(Duration::from_millis(1000)),
                        None => std::thread::sleep(Duration::from_micros(50)),
                    }
                    m.now += 1;
                }
            }
        }
        viols
    }));
    match r {
        Ok(v) => out.extend(v),
        Err(p) => {
            let msg = panic_msg(&p);
            out.push(viol("C08", "types:panic", format!("the scripted history panicked: {msg}"), name));
            if prefix() == "types1cpu" {
                // (build() panics if and only if a duration exceeds 1000 years - also on a
                // machine, or in a container, with a single CPU)
                out.push(viol("C17", "types:panic-on-one-cpu", format!("on a thread restricted to one CPU the scripted history panicked: {msg}"), name));
            }
        }
    }
    Scenario { name, steps: steps() as u64, viol: out }
}

fn unsync_scn<K, V>(tyname: &str, conf: Conf, mk: fn(u32) -> K, mv: fn(u32) -> V, idx_of_v: fn(&V) -> u32, idx_of_k: fn(&K) -> u32) -> Scenario
where
    K: Hash + Eq + Clone + Debug + 'static,
    V: 'static,
{
    let name: &'static str = Box::leak(format!("{}:U:{tyname}:{}", prefix(), conf.name()).into_boxed_str());
    let mut out = Vec::new();
    let r = std::panic::catch_unwind(std::panic::AssertUnwindSafe(|| {
        let mut b = mini_moka::unsync::Cache::<K, V>::builder();
        if matches!(conf, Conf::Roomy | Conf::RoomyWeighed | Conf::RealClockRoomy) {
            b = b.max_capacity(100_000);
        }
        if conf.real() {
            b = b.time_to_live(Duration::from_secs(3600));
            if conf == Conf::RealClock {
                b = b.time_to_idle(Duration::from_secs(3600));
            }
        }
        if conf.weighed() {
            b = b.weigher(move |_k: &K, v: &V| weight_of_idx(idx_of_v(v)));
        }
        if conf == Conf::Ttl {
            b = b.time_to_live(Duration::from_millis(TTL_TICKS * 1000));
        }
        let mut c = b.build();
        let clock = if conf.real() { None } else { Some(c.verif_install_mock_clock()) };
        let mut m = Ref { m: HashMap::new(), now: 0, ttl: if conf == Conf::Ttl { Some(TTL_TICKS) } else { None } };
        let mut vid = 0u32;
        let mut viols: Vec<Violation> = Vec::new();
        for (i, st) in script(steps()).into_iter().enumerate() {
            if viols.len() > 4 {
                break;
            }
            match st {
                Step::Ins(k) => {
                    vid += 1;
                    c.insert(mk(k), mv(vid));
                    m.m.insert(k, (vid, m.now));
                }
                Step::Get(k) => {
                    let key = mk(k);
                    let got = c.get(&key).map(idx_of_v);
                    let want = m.get(k);
                    if got != want {
                        mismatch(&mut viols, name, "get", i, st, format!("{got:?}"), format!("{want:?}"), got.is_some());
                    }
                }
                Step::Con(k) => {
                    let key = mk(k);
                    let got = c.contains_key(&key);
                    let want = m.get(k).is_some();
                    if got != want {
                        mismatch(&mut viols, name, "contains_key", i, st, format!("{got}"), format!("{want}"), got);
                    }
                }
                Step::Inv(k) => {
                    let key = mk(k);
                    c.invalidate(&key);
                    m.m.remove(&k);
                }
                Step::Iter => {
                    let mut got: Vec<(u32, u32)> = c.iter().map(|(k, v)| (idx_of_k(k), idx_of_v(v))).collect();
                    got.sort();
                    let want = m.live();
                    if got != want {
                        let phantom = got.iter().any(|x| !want.contains(x));
                        mismatch(&mut viols, name, "iteration", i, st, format!("{got:?}"), format!("{want:?}"), phantom);
                    }
                }
                Step::InvAll => {
                    c.invalidate_all();
                    m.m.clear();
                }
                Step::Sync => {
                    // (every call of this cache begins with its maintenance: force one)
                    let absent = mk(NKEYS + 1);
                    c.invalidate(&absent);
                    let want = m.live();
                    let (ec, ws) = (c.entry_count(), c.weighted_size());
                    let want_ws: u64 = want.iter().map(|(_, v)| if conf.weighed() { weight_of_idx(*v) as u64 } else { 1 }).sum();
                    if conf != Conf::Ttl && !conf.real() && (ec != want.len() as u64 || ws != want_ws) {
                        viols.push(viol("C10", "types:counters!=live-entries", format!("step {i}: entry_count {ec} weighted_size {ws}, but {} live entries of total weight {want_ws}", want.len()), name));
                    }
                }
                Step::Adv => {
                    match &clock {
                        Some(cl) => cl.advance(Duration::from_millis(1000)),
                        None => std::thread::sleep(Duration::from_micros(50)),
                    }
                    m.now += 1;
                }
            }
        }
        viols
    }));
    match r {
        Ok(v) => out.extend(v),
        Err(p) => {
            let msg = panic_msg(&p);
            out.push(viol("C08", "types:panic", format!("the scripted history panicked: {msg}"), name));
            if prefix() == "types1cpu" {
                // (build() panics if and only if a duration exceeds 1000 years - also on a
                // machine, or in a container, with a single CPU)
                out.push(viol("C17", "types:panic-on-one-cpu", format!("on a thread restricted to one CPU the scripted history panicked: {msg}"), name));
            }
        }
    }
    Scenario { name, steps: steps() as u64, viol: out }
}

// ---- the key / value types

fn k_string(i: u32) -> String {
    // keys of very different lengths, sharing long prefixes
    format!("{}key-{i}", "p".repeat((i % 5) as usize * 9))
}
fn ki_string(k: &String) -> u32 {
    k.rsplit('-').next().unwrap().parse().unwrap()
}
fn k_bytes(i: u32) -> Vec<u8> {
    let mut v = vec![0u8; (i % 4) as usize];
    v.extend_from_slice(&i.to_le_bytes());
    v
}
fn ki_bytes(k: &Vec<u8>) -> u32 {
    let n = k.len();
    u32::from_le_bytes([k[n - 4], k[n - 3], k[n - 2], k[n - 1]])
}
fn k_u64(i: u32) -> u64 {
    // differ in the high bits only
    (i as u64) << 40
}
fn ki_u64(k: &u64) -> u32 {
    (*k >> 40) as u32
}
fn k_pair(i: u32) -> (u16, i64) {
    ((i % 3) as u16, -(i as i64))
}
fn ki_pair(k: &(u16, i64)) -> u32 {
    (-k.1) as u32
}
fn k_arc(i: u32) -> Arc<str> {
    Arc::from(format!("arc-{i}").as_str())
}
fn ki_arc(k: &Arc<str>) -> u32 {
    k.rsplit('-').next().unwrap().parse().unwrap()
}
fn k_unit(_i: u32) {}

/// A key with user-written `Eq` and `Hash` (consistent with each other, case-insensitive):
/// equal keys need not be identical, and every call of `k_ci` spells the key differently.
#[derive(Clone, Debug)]
pub struct CiKey(String);
impl PartialEq for CiKey {
    fn eq(&self, o: &Self) -> bool {
        self.0.eq_ignore_ascii_case(&o.0)
    }
}
impl Eq for CiKey {}
impl Hash for CiKey {
    fn hash<H: std::hash::Hasher>(&self, h: &mut H) {
        for b in self.0.bytes() {
            h.write_u8(b.to_ascii_lowercase());
        }
    }
}
fn k_ci(i: u32) -> CiKey {
    static SPELL: std::sync::atomic::AtomicU32 = std::sync::atomic::AtomicU32::new(0);
    let n = SPELL.fetch_add(1, std::sync::atomic::Ordering::Relaxed);
    let base = format!("key-{i}");
    CiKey(base.chars().enumerate().map(|(j, c)| if (n >> (j % 3)) & 1 == 1 { c.to_ascii_uppercase() } else { c }).collect())
}
fn ki_ci(k: &CiKey) -> u32 {
    k.0.rsplit('-').next().unwrap().parse().unwrap()
}

fn v_u32(i: u32) -> u32 {
    i
}
fn vi_u32(v: &u32) -> u32 {
    *v
}
fn v_string(i: u32) -> String {
    format!("value {i} {}", "x".repeat((i % 40) as usize))
}
fn vi_string(v: &String) -> u32 {
    v.split(' ').nth(1).unwrap().parse().unwrap()
}
fn v_arc(i: u32) -> Arc<Vec<u64>> {
    Arc::new(vec![i as u64; 1 + (i % 3) as usize])
}
fn vi_arc(v: &Arc<Vec<u64>>) -> u32 {
    v[0] as u32
}
fn v_big(i: u32) -> [u32; 64] {
    [i; 64]
}
fn vi_big(v: &[u32; 64]) -> u32 {
    v[63]
}
fn v_opt(i: u32) -> Option<Box<u32>> {
    if i % 2 == 0 {
        Some(Box::new(i))
    } else {
        None
    }
}

/// Expiry against the REAL clock (no mock clock installed): an entry must not be observable
/// once the thread has slept through its time-to-live / time-to-idle. (Only the upper bound
/// is judged: that a sleep lasts at least as long as asked is guaranteed, how much longer is
/// not - so the verdict does not depend on the load of the machine.)
fn realtime(kind: char, idle: bool) -> Scenario {
    let name: &'static str = Box::leak(format!("types:{kind}:realtime-{}30ms", if idle { "tti" } else { "ttl" }).into_boxed_str());
    let d = Duration::from_millis(30);
    let mut out = Vec::new();
    let r = std::panic::catch_unwind(std::panic::AssertUnwindSafe(|| -> Vec<String> {
        let mut bad = Vec::new();
        if kind == 'S' {
            let b = mini_moka::sync::Cache::<String, String>::builder().max_capacity(100);
            let c = if idle { b.time_to_idle(d).build() } else { b.time_to_live(d).build() };
            for round in 0..3 {
                c.insert("a".to_string(), format!("v{round}"));
                c.insert("b".to_string(), format!("w{round}"));
                if round == 1 {
                    c.sync();
                }
                let _ = c.get(&"a".to_string());
                std::thread::sleep(Duration::from_millis(45));
                if c.get(&"a".to_string()).is_some() || c.contains_key(&"b".to_string()) || c.iter().count() != 0 {
                    bad.push(format!("round {round}: an entry is still observable 45 ms after its insert and last read ({} 30 ms, real clock)", if idle { "time_to_idle" } else { "time_to_live" }));
                }
            }
        } else {
            let b = mini_moka::unsync::Cache::<String, String>::builder().max_capacity(100);
            let mut c = if idle { b.time_to_idle(d).build() } else { b.time_to_live(d).build() };
            for round in 0..3 {
                c.insert("a".to_string(), format!("v{round}"));
                c.insert("b".to_string(), format!("w{round}"));
                let _ = c.get(&"a".to_string());
                std::thread::sleep(Duration::from_millis(45));
                if c.iter().count() != 0 || c.get(&"a".to_string()).is_some() || c.contains_key(&"b".to_string()) {
                    bad.push(format!("round {round}: an entry is still observable 45 ms after its insert and last read ({} 30 ms, real clock)", if idle { "time_to_idle" } else { "time_to_live" }));
                }
            }
        }
        bad
    }));
    match r {
        Ok(bad) => {
            for b in bad.into_iter().take(1) {
                out.push(viol(if idle { "C06" } else { "C05" }, "types:realtime:visible-past-deadline", b.clone(), name));
                out.push(viol("C01", "types:realtime:visible-past-deadline", b, name));
            }
        }
        Err(p) => out.push(viol("C08", "types:panic", format!("the real-time scenario panicked: {}", panic_msg(&p)), name)),
    }
    Scenario { name, steps: 30, viol: out }
}

/// The configurations that use the library's own defaults (no mock clock, default number of
/// map shards - derived from the number of CPUs the process may use), run by a thread that
/// is restricted to ONE CPU: `available_parallelism()` is 1 there.
pub fn scenarios_1cpu() -> Vec<Scenario> {
    let mut out = Vec::new();
    let h = std::thread::spawn(|| {
        let mut out = Vec::new();
        match pin_one_cpu() {
            None => out.push(Scenario { name: "types1cpu:pin", steps: 0, viol: vec![] }),
            Some(_) => {
                let seen = std::thread::available_parallelism().map(|n| n.get()).unwrap_or(0);
                *PREFIX.lock().unwrap() = "types1cpu";
                for conf in [Conf::RealClock, Conf::RealClockRoomy] {
                    out.push(sync_scn::<String, u32>("String-u32", conf, k_string, v_u32, vi_u32, ki_string));
                    out.push(unsync_scn::<String, u32>("String-u32", conf, k_string, v_u32, vi_u32, ki_string));
                    out.push(sync_scn::<u64, [u32; 64]>("u64-array", conf, k_u64, v_big, vi_big, ki_u64));
                }
                *PREFIX.lock().unwrap() = "types";
                if seen != 1 {
                    // (not a verdict about the library: the restriction did not take effect)
                    out.clear();
                    out.push(Scenario { name: "types1cpu:pin", steps: 0, viol: vec![] });
                }
            }
        }
        out
    });
    if let Ok(v) = h.join() {
        out.extend(v);
    }
    out
}

/// One cache object that lives through 400 000 operations (thousands of maintenance runs,
/// invalidate_all calls and clock advances; every log wraps around many times; tens of
/// thousands of recorded lookups, i.e. many aging steps of the popularity sketch).
pub fn scenarios_longlife() -> Vec<Scenario> {
    let mut out = Vec::new();
    *PREFIX.lock().unwrap() = "typeslong";
    STEPS_NOW.store(400_000, std::sync::atomic::Ordering::Relaxed);
    for conf in [Conf::Roomy, Conf::RoomyWeighed, Conf::Ttl] {
        out.push(sync_scn::<u64, u32>("u64-u32", conf, k_u64, v_u32, vi_u32, ki_u64));
        out.push(unsync_scn::<u64, u32>("u64-u32", conf, k_u64, v_u32, vi_u32, ki_u64));
    }
    STEPS_NOW.store(STEPS, std::sync::atomic::Ordering::Relaxed);
    *PREFIX.lock().unwrap() = "types";
    out
}

pub fn scenarios() -> Vec<Scenario> {
    let _ = (k_unit, v_opt);
    let mut out = Vec::new();
    for kind in ['S', 'U'] {
        out.push(realtime(kind, false));
        out.push(realtime(kind, true));
    }
    for conf in [Conf::Unbounded, Conf::Roomy, Conf::RoomyWeighed, Conf::Ttl, Conf::RealClock, Conf::RealClockRoomy] {
        // (the caches' lookups take `&Q` with `Arc<K>: Borrow<Q>` / `Rc<K>: Borrow<Q>`: in
        // practice Q = K, so keys are looked up through their own type)
        out.push(sync_scn::<String, u32>("String-u32", conf, k_string, v_u32, vi_u32, ki_string));
        out.push(unsync_scn::<String, u32>("String-u32", conf, k_string, v_u32, vi_u32, ki_string));
        out.push(sync_scn::<Vec<u8>, String>("VecU8-String", conf, k_bytes, v_string, vi_string, ki_bytes));
        out.push(unsync_scn::<Vec<u8>, String>("VecU8-String", conf, k_bytes, v_string, vi_string, ki_bytes));
        out.push(sync_scn::<Arc<str>, Arc<Vec<u64>>>("ArcStr-ArcVec", conf, k_arc, v_arc, vi_arc, ki_arc));
        out.push(unsync_scn::<Arc<str>, Arc<Vec<u64>>>("ArcStr-ArcVec", conf, k_arc, v_arc, vi_arc, ki_arc));
        out.push(sync_scn::<u64, [u32; 64]>("u64-array", conf, k_u64, v_big, vi_big, ki_u64));
        out.push(unsync_scn::<u64, [u32; 64]>("u64-array", conf, k_u64, v_big, vi_big, ki_u64));
        out.push(sync_scn::<CiKey, String>("CaseInsensitiveKey-String", conf, k_ci, v_string, vi_string, ki_ci));
        out.push(unsync_scn::<CiKey, String>("CaseInsensitiveKey-String", conf, k_ci, v_string, vi_string, ki_ci));
        out.push(sync_scn::<(u16, i64), u32>("tuple-u32", conf, k_pair, v_u32, vi_u32, ki_pair));
        out.push(unsync_scn::<(u16, i64), u32>("tuple-u32", conf, k_pair, v_u32, vi_u32, ki_pair));
    }
    out
}
