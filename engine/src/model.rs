//! Reference models (boring on purpose) and the per-step oracles.
//!
//! M-map   per key: latest value, insert reading, invalidated?, last access
//! M-room  admission bookkeeping from the residents the implementation holds
//! M-lru   recency order by last insert/update/successful get + TinyLFU decision
//!
//! `step` executes ONE operation on the real cache and evaluates every oracle on
//! the result. All oracles run in every search; a check for property P reports
//! P's violations and prunes (does not expand) states violating anything.

use crate::common::*;
use crate::sut::*;
use mini_moka::verif::{DequeSnap, EntrySnap, OpSnap, Snapshot};
use std::collections::{BTreeMap, HashMap, VecDeque};
use std::panic::{catch_unwind, AssertUnwindSafe};
use std::time::Instant;

#[derive(Clone, Debug, Default, PartialEq)]
pub struct KeyM {
    pub ever: bool,
    pub has: bool,
    pub vid: u32,
    pub w: u32,
    pub t_ins: i64,
    /// hidden by an invalidate_all at a strictly later reading (S only)
    pub inval: bool,
    pub a_true: i64,
    pub a_applied: i64,
    pub use_seq: u32,
    /// S: bumped when an insert creates a fresh entry (key not physically present)
    pub gen: u32,
}

#[derive(Clone, Debug, PartialEq)]
pub struct Oblig {
    pub k: u8,
    pub vid: u32,
    pub protect: Vec<u8>,
}

#[derive(Clone, Debug, PartialEq)]
pub struct Model {
    pub now: i64,
    pub keys: Vec<KeyM>,
    pub next_vid: u32,
    pub seq: u32,
    pub total_w: u64,
    pub inv_calls: u32,
    /// S: gets whose read record has not been applied yet (oldest first);
    /// Some((key, reading, gen)) for a hit, None for a miss
    pub pending_reads: VecDeque<Option<(u8, i64, u32)>>,
    pub obligation: Option<Oblig>,
    /// U: an in-place update grew an entry; the excess may stay until the next
    /// insert/get/contains_key/invalidate
    pub excess_ok: bool,
    pub advances: u32,
    /// S: a full maintenance run (sync) was the last thing that happened
    pub maintained: bool,
}

impl Model {
    pub fn new(cfg: &Cfg) -> Model {
        Model {
            now: if cfg.kind == Kind::S && cfg.beyond { 1000 } else { 0 },
            keys: vec![KeyM::default(); cfg.nkeys as usize + 1],
            next_vid: 1,
            seq: 0,
            total_w: 0,
            inv_calls: 0,
            pending_reads: VecDeque::new(),
            obligation: None,
            excess_ok: false,
            advances: 0,
            maintained: true,
        }
    }

    fn ttl_dead(&self, cfg: &Cfg, k: u8) -> bool {
        match cfg.ttl_ms() {
            Some(d) => self.now >= self.keys[k as usize].t_ins + d,
            None => false,
        }
    }
    fn tti_dead(&self, cfg: &Cfg, k: u8, applied: bool) -> bool {
        let km = &self.keys[k as usize];
        match cfg.tti_ms() {
            Some(d) => self.now >= (if applied { km.a_applied } else { km.a_true }) + d,
            None => false,
        }
    }

    /// Upper bound: the only value a lookup of `k` may return (or nothing).
    pub fn may(&self, cfg: &Cfg, k: u8) -> Option<u32> {
        let km = &self.keys[k as usize];
        if km.has && !km.inval && !self.ttl_dead(cfg, k) && !self.tti_dead(cfg, k, false) {
            Some(km.vid)
        } else {
            None
        }
    }

    pub fn pressure_possible(&self, cfg: &Cfg) -> bool {
        match cfg.cap {
            None => false,
            Some(c) => self.total_w > c,
        }
    }

    /// Lower bound: the value a lookup of `k` must return, when the model is sure.
    pub fn must(&self, cfg: &Cfg, k: u8) -> Option<u32> {
        let km = &self.keys[k as usize];
        if km.has
            && !km.inval
            && !self.ttl_dead(cfg, k)
            && !self.tti_dead(cfg, k, true)
            && !self.pressure_possible(cfg)
        {
            Some(km.vid)
        } else {
            None
        }
    }

    /// live by the model's own clock and invalidation record (used for "evicts nothing")
    pub fn live(&self, cfg: &Cfg, k: u8) -> bool {
        let km = &self.keys[k as usize];
        km.has && !km.inval && !self.ttl_dead(cfg, k) && !self.tti_dead(cfg, k, true)
    }
}

// ---------------------------------------------------------------------------
// Canonical form
// ---------------------------------------------------------------------------

/// An instant as a signed offset from `now`, to the nanosecond (two fields: whole seconds
/// and the rest; durations of centuries do not fit into 64 bits of nanoseconds).
fn rel(c: &mut Canon, t: Option<Instant>, now: Instant) {
    match t {
        None => {
            c.i64(i64::MIN);
            c.u32(0);
        }
        Some(t) => {
            let (neg, d) = if t >= now { (false, t.duration_since(now)) } else { (true, now.duration_since(t)) };
            let secs = d.as_secs() as i64;
            c.i64(if neg { -secs } else { secs });
            c.u32(d.subsec_nanos() | if neg { 1 << 31 } else { 0 });
        }
    }
}

struct Interner {
    map: HashMap<usize, u32>,
}
impl Interner {
    fn new() -> Self {
        Self { map: HashMap::new() }
    }
    fn id(&mut self, addr: usize) -> u32 {
        if addr == 0 {
            return u32::MAX;
        }
        let n = self.map.len() as u32;
        *self.map.entry(addr).or_insert(n)
    }
}

fn node_pos(s: &Snapshot, addr: usize) -> (u8, u32) {
    for (di, d) in [&s.window, &s.probation, &s.protected, &s.write_order]
        .iter()
        .enumerate()
    {
        if let Some(p) = d.nodes.iter().position(|n| n.addr == addr) {
            return (di as u8, p as u32);
        }
    }
    (255, u32::MAX)
}

fn all_vids(s: &Snapshot, m: Option<&Model>) -> Vec<u64> {
    let mut v: Vec<u64> = s.entries.iter().map(|e| e.value).collect();
    for op in s.read_ops.iter().chain(s.write_ops.iter()) {
        match op {
            OpSnap::Hit { entry, .. } | OpSnap::Upsert { entry, .. } | OpSnap::Remove { entry } => {
                v.push(entry.value)
            }
            OpSnap::Miss { .. } => {}
        }
    }
    if let Some(m) = m {
        for km in &m.keys {
            if km.has {
                v.push(km.vid as u64);
            }
        }
        if let Some(o) = &m.obligation {
            v.push(o.vid as u64);
        }
    }
    v.sort_unstable();
    v.dedup();
    v
}

fn canon_entry(c: &mut Canon, e: &EntrySnap, s: &Snapshot, now: Instant, vids: &[u64], it: &mut Interner) {
    c.u64(e.key);
    c.u32(vids.binary_search(&e.value).map(|x| x as u32).unwrap_or(u32::MAX));
    c.u32(it.id(e.entry_addr));
    c.u32(it.id(e.info_addr));
    c.u32(e.weight);
    c.u32(e.accounted);
    rel(c, e.last_accessed, now);
    rel(c, e.last_modified, now);
    c.u8(e.dirty as u8);
    c.u8(e.admitted as u8);
    match e.ao_node {
        None => c.u8(0),
        Some((a, tag)) => {
            c.u8(1);
            let (d, p) = node_pos(s, a);
            c.u8(d);
            c.u32(p);
            c.u8(tag as u8);
        }
    }
    match e.wo_node {
        None => c.u8(0),
        Some(a) => {
            c.u8(1);
            let (d, p) = node_pos(s, a);
            c.u8(d);
            c.u32(p);
        }
    }
}

fn canon_deque(c: &mut Canon, d: &DequeSnap, now: Instant, it: &mut Interner) {
    c.u32(d.len as u32);
    c.u32(d.nodes.len() as u32);
    for n in &d.nodes {
        c.u64(n.key);
        c.u32(it.id(n.info_addr));
        rel(c, n.timestamp, now);
    }
    match d.cursor {
        None => c.u8(0),
        Some(None) => c.u8(1),
        Some(Some(a)) => {
            c.u8(2);
            c.u32(d.nodes.iter().position(|n| n.addr == a).map(|p| p as u32).unwrap_or(u32::MAX));
        }
    }
    c.u8(d.malformed.is_some() as u8);
}

/// Canonical form of the implementation state alone (used by the purity check).
/// Quotienting steps, each a bisimulation: heap addresses -> first-occurrence
/// indices; instants -> signed offset from `now`; value ids -> dense ranks.
pub fn canon_impl(c: &mut Canon, s: &Snapshot, now: Instant, model: Option<&Model>) {
    let vids = all_vids(s, model);
    let mut it = Interner::new();
    c.tag("E");
    c.u32(s.entries.len() as u32);
    for e in &s.entries {
        canon_entry(c, e, s, now, &vids, &mut it);
    }
    c.tag("D");
    for d in [&s.window, &s.probation, &s.protected, &s.write_order] {
        canon_deque(c, d, now, &mut it);
    }
    c.tag("C");
    c.u64(s.entry_count);
    c.u64(s.weighted_size);
    c.u8(s.sketch.enabled as u8);
    c.u32(s.sketch.size);
    c.u32(s.sketch.sample_size);
    c.u32(s.sketch.table_len as u32);
    c.u32(s.sketch.resets);
    for (i, w) in &s.sketch.table {
        c.u32(*i);
        c.u64(*w);
    }
    c.tag("T");
    rel(c, s.valid_after, now);
    rel(c, s.sync_after, now);
    c.u8(s.sync_running as u8);
    c.tag("R");
    c.u32(s.read_ops.len() as u32);
    for op in &s.read_ops {
        match op {
            OpSnap::Hit { hash, entry, timestamp } => {
                c.u8(1);
                c.u64(*hash);
                canon_entry(c, entry, s, now, &vids, &mut it);
                rel(c, Some(*timestamp), now);
            }
            OpSnap::Miss { hash } => {
                c.u8(2);
                c.u64(*hash);
            }
            _ => c.u8(9),
        }
    }
    c.tag("W");
    c.u32(s.write_ops.len() as u32);
    for op in &s.write_ops {
        match op {
            OpSnap::Upsert { hash, entry, old_weight, new_weight } => {
                c.u8(1);
                c.u64(*hash);
                canon_entry(c, entry, s, now, &vids, &mut it);
                c.u32(*old_weight);
                c.u32(*new_weight);
            }
            OpSnap::Remove { entry } => {
                c.u8(2);
                canon_entry(c, entry, s, now, &vids, &mut it);
            }
            _ => c.u8(9),
        }
    }
    if let Some(m) = model {
        c.tag("M");
        // recency ranks
        let mut seqs: Vec<u32> = m.keys.iter().map(|k| k.use_seq).collect();
        seqs.sort_unstable();
        seqs.dedup();
        for km in &m.keys {
            c.u8(km.ever as u8);
            c.u8(km.has as u8);
            if km.has {
                c.u32(vids.binary_search(&(km.vid as u64)).map(|x| x as u32).unwrap_or(u32::MAX));
                c.u32(km.w);
                c.i64(km.t_ins - m.now);
                c.u8(km.inval as u8);
                c.i64(km.a_true - m.now);
                c.i64(km.a_applied - m.now);
            }
            c.u32(seqs.binary_search(&km.use_seq).unwrap() as u32);
        }
        c.u32(m.pending_reads.len() as u32);
        for r in &m.pending_reads {
            match r {
                None => c.u8(0),
                Some((k, t, g)) => {
                    c.u8(1);
                    c.u8(*k);
                    c.i64(*t - m.now);
                    c.u8((m.keys[*k as usize].gen == *g) as u8);
                }
            }
        }
        match &m.obligation {
            None => c.u8(0),
            Some(o) => {
                c.u8(1);
                c.u8(o.k);
                for p in &o.protect {
                    c.u8(*p);
                }
                c.u8(255);
            }
        }
        c.u8(m.excess_ok as u8);
        c.u8(m.maintained as u8);
        c.u32(m.advances);
        c.u8((m.inv_calls > 0) as u8);
    }
}

pub fn state_fp(cfg: &Cfg, s: &Snapshot, now: Instant, m: &Model) -> u128 {
    let mut c = Canon::default();
    canon_impl(&mut c, s, now, Some(m));
    // what decides whether the lower-bound oracle applies
    c.u64(match cfg.cap {
        None => 0,
        Some(cap) => m.total_w.min(cap.saturating_add(1)),
    });
    fingerprint(&c.0)
}

pub fn impl_fp(s: &Snapshot, now: Instant) -> u128 {
    let mut c = Canon::default();
    canon_impl(&mut c, s, now, None);
    fingerprint(&c.0)
}

// ---------------------------------------------------------------------------
// Oracles
// ---------------------------------------------------------------------------

pub struct StepOut {
    pub obs: Obs,
    pub post: Option<Snapshot>,
    pub viol: Vec<Violation>,
    /// ops left in the queues of S after the step
    pub pending: usize,
    /// the operation panicked: the cache must not be used any more
    pub dead: bool,
}

fn v(prop: &'static str, sig: String, detail: String) -> Violation {
    Violation {
        prop,
        sig,
        detail,
        witness: String::new(),
    }
}

fn phys(s: &Snapshot) -> BTreeMap<u8, &EntrySnap> {
    s.entries.iter().map(|e| (e.key as u8, e)).collect()
}

fn sum_w(s: &Snapshot) -> u64 {
    s.entries.iter().map(|e| e.weight as u64).sum()
}

fn kd(cfg: &Cfg) -> &'static str {
    if cfg.kind == Kind::U {
        "U"
    } else {
        "S"
    }
}

const DOCUMENTED_PANICS: [&str; 2] = [
    "time_to_live is longer than 1000 years",
    "time_to_idle is longer than 1000 years",
];

/// Structural walker: list well-formedness and entry <-> node back pointers.
pub fn walk(cfg: &Cfg, s: &Snapshot, quiescent: bool) -> Vec<Violation> {
    let mut out = Vec::new();
    let names = ["window", "probation", "protected", "write_order"];
    let deqs = [&s.window, &s.probation, &s.protected, &s.write_order];
    for (d, name) in deqs.iter().zip(names) {
        if let Some(p) = &d.malformed {
            out.push(v("C08", format!("{}:deque-malformed:{name}", kd(cfg)), p.clone()));
        }
        let mut keys: Vec<u64> = d.nodes.iter().map(|n| n.key).collect();
        keys.sort_unstable();
        let before = keys.len();
        keys.dedup();
        if keys.len() != before {
            out.push(v(
                "C08",
                format!("{}:two-nodes-for-one-key:{name}", kd(cfg)),
                format!("deque {name} holds two nodes for one key: {:?}", d.nodes.iter().map(|n| n.key).collect::<Vec<_>>()),
            ));
        }
    }
    if !s.window.nodes.is_empty() || !s.protected.nodes.is_empty() {
        out.push(v("C08", format!("{}:unused-deque-nonempty", kd(cfg)), "window/protected deque is not empty".into()));
    }
    // every entry (in the map or referenced by a pending op) -> its nodes
    let mut all_entries: Vec<(&EntrySnap, &'static str)> = s.entries.iter().map(|e| (e, "map")).collect();
    for op in s.read_ops.iter().chain(s.write_ops.iter()) {
        match op {
            OpSnap::Hit { entry, .. } => all_entries.push((entry, "read-op")),
            OpSnap::Upsert { entry, .. } => all_entries.push((entry, "upsert-op")),
            OpSnap::Remove { entry } => all_entries.push((entry, "remove-op")),
            OpSnap::Miss { .. } => {}
        }
    }
    for (e, wher) in &all_entries {
        if let Some((addr, tag)) = e.ao_node {
            let (d, p) = node_pos(s, addr);
            if d == 255 {
                out.push(v(
                    "C08",
                    format!("{}:dangling-ao-node:{wher}", kd(cfg)),
                    format!("entry for key {} ({wher}) points at an access-order node that is in no deque", e.key),
                ));
            } else if d as usize != tag.min(3) || tag != 1 {
                out.push(v("C08", format!("{}:ao-node-wrong-deque:{wher}", kd(cfg)), format!("key {} tag {tag} deque {d}", e.key)));
            } else {
                let n = &deqs[d as usize].nodes[p as usize];
                if *wher == "map" && n.key != e.key {
                    out.push(v("C08", format!("{}:ao-node-key-mismatch", kd(cfg)), format!("entry key {} node key {}", e.key, n.key)));
                }
                if cfg.kind == Kind::S && n.info_addr != e.info_addr {
                    out.push(v("C08", format!("{}:ao-node-info-mismatch:{wher}", kd(cfg)), format!("key {}", e.key)));
                }
            }
        }
        if let Some(addr) = e.wo_node {
            let (d, _p) = node_pos(s, addr);
            if d == 255 {
                out.push(v(
                    "C08",
                    format!("{}:dangling-wo-node:{wher}", kd(cfg)),
                    format!("entry for key {} ({wher}) points at a write-order node that is in no deque", e.key),
                ));
            } else if d != 3 {
                out.push(v("C08", format!("{}:wo-node-wrong-deque:{wher}", kd(cfg)), format!("key {} deque {d}", e.key)));
            }
        }
    }
    // every node -> an entry that owns it
    for (di, d) in deqs.iter().enumerate() {
        for n in &d.nodes {
            let owner = all_entries.iter().find(|(e, _)| {
                if di == 3 {
                    e.wo_node == Some(n.addr)
                } else {
                    e.ao_node.map(|x| x.0) == Some(n.addr)
                }
            });
            if owner.is_none() {
                out.push(v(
                    "C08",
                    format!("{}:orphan-node:{}", kd(cfg), names[di]),
                    format!(
                        "node for key {} in {} is owned by no map entry and no pending op (leaks the key; a later victim scan dereferences its stale twin)",
                        n.key, names[di]
                    ),
                ));
            }
        }
    }
    // map entries must be linked once maintenance has seen them
    let settled = cfg.kind == Kind::U || quiescent;
    if settled {
        for e in &s.entries {
            if e.ao_node.is_none() {
                out.push(v(
                    "C08",
                    format!("{}:resident-without-ao-node", kd(cfg)),
                    format!("key {} is in the map but has no access-order node", e.key),
                ));
            }
            if cfg.ttl.is_some() && e.wo_node.is_none() {
                out.push(v(
                    "C08",
                    format!("{}:resident-without-wo-node", kd(cfg)),
                    format!("key {} is in the map but has no write-order node", e.key),
                ));
            }
            if cfg.kind == Kind::S && (!e.admitted || e.dirty) {
                out.push(v(
                    "C08",
                    format!("S:resident-not-admitted-at-quiescence"),
                    format!("key {} admitted={} dirty={} with empty queues", e.key, e.admitted, e.dirty),
                ));
            }
        }
    }
    out
}

thread_local! {
    static FACADES: std::cell::RefCell<HashMap<usize, mini_moka::verif::SketchFacade>> = std::cell::RefCell::new(HashMap::new());
}

fn sketch_inc(table: &mut BTreeMap<u32, u64>, table_len: usize, hash: u64) {
    if table_len == 0 {
        return;
    }
    FACADES.with(|f| {
        let mut f = f.borrow_mut();
        let fac = f.entry(table_len).or_insert_with(|| {
            let mut s = mini_moka::verif::SketchFacade::new();
            s.ensure_capacity(table_len as u32);
            assert_eq!(s.snapshot().table_len, table_len, "facade table size");
            s
        });
        for d in 0..4u8 {
            let (idx, nib) = fac.counter_of(hash, d);
            let w = table.entry(idx as u32).or_insert(0);
            let off = (nib as u64) << 2;
            if (*w >> off) & 0xF != 0xF {
                *w += 1u64 << off;
            }
        }
    });
}

/// Expected probation order after `op` according to M-lru / M-tinylfu.
/// Returns (order, admitted?) where admitted is Some for an insert of a new key.
fn predict_lru(
    cfg: &Cfg,
    m: &Model,
    m_after: &Model,
    pre: &Snapshot,
    op: Op,
    est: &[u8],
) -> (Vec<u8>, Option<bool>, Vec<u8>) {
    // residents ordered from least to most recently used by the model's clock
    let mut r: Vec<(u8, u32)> = pre.entries.iter().map(|e| (e.key as u8, e.weight)).collect();
    r.sort_by_key(|(k, _)| m.keys[*k as usize].use_seq);
    let cap = cfg.cap;
    // expiry purge: everything whose ttl / tti deadline has passed at the reading of
    // this call (U: judged before the call acts; S: by the maintenance run after it)
    let now = m_after.now;
    let purge = |r: &mut Vec<(u8, u32)>, mm: &Model| {
        r.retain(|(k, _)| {
            let km = &mm.keys[*k as usize];
            let ttl_dead = cfg.ttl_ms().map(|d| now >= km.t_ins + d).unwrap_or(false);
            let tti_dead = cfg.tti_ms().map(|d| now >= km.a_true + d).unwrap_or(false);
            !(km.has && (ttl_dead || tti_dead))
        })
    };
    let evict_excess = |r: &mut Vec<(u8, u32)>| {
        if let Some(cap) = cap {
            let total: u64 = r.iter().map(|x| x.1 as u64).sum();
            let excess = total.saturating_sub(cap);
            let mut ev = 0u64;
            while ev < excess && !r.is_empty() {
                ev += r.remove(0).1 as u64;
            }
        }
    };
    let u = cfg.kind == Kind::U;
    if u && matches!(op, Op::Ins(..) | Op::Get(_) | Op::Con(_) | Op::Inv(_) | Op::InvDP(_)) {
        purge(&mut r, m);
        evict_excess(&mut r);
    }
    // S in the housekeeping regime in which insert / get / invalidate first run the pending
    // maintenance (and the clock may have moved since the last pass): that pass purges and
    // trims before the call's own effect is queued
    if !u && !cfg.beyond && cfg.lazyadv && matches!(op, Op::Ins(..) | Op::Get(_) | Op::Inv(_)) {
        purge(&mut r, m_after);
        evict_excess(&mut r);
    }
    let mut decision = None;
    let lru_before: Vec<u8> = r.iter().map(|x| x.0).collect();
    match op {
        Op::Ins(k, w) => {
            let pw = cfg.pw(weight_of(w));
            if let Some(p) = r.iter().position(|x| x.0 == k) {
                r.remove(p);
                r.push((k, pw));
            } else {
                let total: u64 = r.iter().map(|x| x.1 as u64).sum();
                match cap {
                    None => {
                        r.push((k, pw));
                        decision = Some(true);
                    }
                    Some(c) if total + pw as u64 <= c => {
                        r.push((k, pw));
                        decision = Some(true);
                    }
                    Some(c) if pw as u64 > c => decision = Some(false),
                    Some(_) => {
                        let mut acc = 0u64;
                        let mut fsum = 0u32;
                        let mut n = 0;
                        while acc < pw as u64 && n < r.len() {
                            acc += r[n].1 as u64;
                            fsum += est[r[n].0 as usize] as u32;
                            n += 1;
                        }
                        if acc >= pw as u64 && est[k as usize] as u32 > fsum {
                            r.drain(0..n);
                            r.push((k, pw));
                            decision = Some(true);
                        } else {
                            decision = Some(false);
                        }
                    }
                }
            }
        }
        Op::Get(k) => {
            if let Some(p) = r.iter().position(|x| x.0 == k) {
                let e = r.remove(p);
                r.push(e);
            }
        }
        Op::Inv(k) | Op::InvDP(k) => r.retain(|x| x.0 != k),
        Op::InvIf(p) => {
            // predicate sees the stored value: weight field of the value
            let pre_w: BTreeMap<u8, u32> = pre.entries.iter().map(|e| (e.key as u8, e.weight)).collect();
            let _ = pre_w;
            r.retain(|x| {
                let vw = m.keys[x.0 as usize].w;
                !p.eval(x.0, vw)
            });
        }
        Op::InvAll => {
            if u {
                r.clear()
            }
        }
        _ => {}
    }
    if !u {
        purge(&mut r, m_after);
        evict_excess(&mut r);
    }
    (r.into_iter().map(|x| x.0).collect(), decision, lru_before)
}

/// What one maintenance pass of the concurrent cache must leave behind, computed from the
/// snapshot taken before it (map, access-order queue, both op queues) and the popularity
/// estimates read after it (the sketch only changes while the read log is applied, which
/// comes first). Caches without expiry and without an invalidate_all watermark only; one
/// round (queues shorter than a flush batch). Boring on purpose: lists and maps.
/// Returns (access-order queue as (key, info), resident keys, entry_count, weighted_size,
/// whether an admission contest took place).
fn predict_pass(cfg: &Cfg, pre: &Snapshot, est: &[u8], retry_limit: usize, hit_limit: &mut bool) -> (Vec<(u64, usize)>, Vec<u64>, u64, u64, bool) {
    #[derive(Clone, Copy)]
    struct Info {
        admitted: bool,
        accounted: u32,
        weight: u32,
    }
    // map: key -> (entry address, info address)
    let mut map: BTreeMap<u64, (usize, usize)> = pre.entries.iter().map(|e| (e.key, (e.entry_addr, e.info_addr))).collect();
    let mut infos: BTreeMap<usize, Info> = BTreeMap::new();
    let mut note = |e: &EntrySnap, infos: &mut BTreeMap<usize, Info>| {
        infos.entry(e.info_addr).or_insert(Info { admitted: e.admitted, accounted: e.accounted, weight: e.weight });
    };
    for e in &pre.entries {
        note(e, &mut infos);
    }
    for o in pre.read_ops.iter().chain(pre.write_ops.iter()) {
        match o {
            OpSnap::Hit { entry, .. } | OpSnap::Upsert { entry, .. } | OpSnap::Remove { entry } => note(entry, &mut infos),
            OpSnap::Miss { .. } => {}
        }
    }
    let mut q: Vec<(u64, usize)> = pre.probation.nodes.iter().map(|n| (n.key, n.info_addr)).collect();
    let (mut ec, mut ws) = (pre.entry_count, pre.weighted_size);
    let cap = cfg.cap;
    let mut contest = false;
    let to_back = |q: &mut Vec<(u64, usize)>, info: usize| {
        if let Some(p) = q.iter().position(|n| n.1 == info) {
            let n = q.remove(p);
            q.push(n);
        }
    };
    // 1. the read log: a hit refreshes the recency of an admitted entry
    for o in &pre.read_ops {
        if let OpSnap::Hit { entry, .. } = o {
            if infos[&entry.info_addr].admitted {
                to_back(&mut q, entry.info_addr);
            }
        }
    }
    // 2. the write log, oldest first
    for o in &pre.write_ops {
        match o {
            OpSnap::Upsert { entry, new_weight, .. } => {
                let key = entry.key;
                let ia = entry.info_addr;
                let inf = infos[&ia];
                if inf.admitted {
                    ws = ws.saturating_sub(inf.accounted as u64).saturating_add(inf.weight as u64);
                    infos.get_mut(&ia).unwrap().accounted = inf.weight;
                    to_back(&mut q, ia);
                    continue;
                }
                // a stale op: the map holds another value entry for the key by now
                if map.get(&key).map(|m| m.0) != Some(entry.entry_addr) {
                    continue;
                }
                let nw = *new_weight;
                let admit = |q: &mut Vec<(u64, usize)>, infos: &mut BTreeMap<usize, Info>, ec: &mut u64, ws: &mut u64| {
                    *ec += 1;
                    *ws = ws.saturating_add(nw as u64);
                    let i = infos.get_mut(&ia).unwrap();
                    i.admitted = true;
                    i.accounted = nw;
                    q.push((key, ia));
                };
                if cap.map(|c| ws + nw as u64 <= c).unwrap_or(true) {
                    admit(&mut q, &mut infos, &mut ec, &mut ws);
                    continue;
                }
                if nw as u64 > cap.unwrap() {
                    map.remove(&key);
                    continue;
                }
                contest = true;
                let cfreq = est[key as usize] as u32;
                let (mut vw, mut vfreq) = (0u64, 0u32);
                let mut victims: Vec<(u64, usize)> = Vec::new();
                let mut skipped: Vec<(u64, usize)> = Vec::new();
                let mut retries = 0;
                let mut i = 0;
                while vw < nw as u64 {
                    if cfreq < vfreq {
                        break;
                    }
                    if i >= q.len() {
                        break;
                    }
                    let node = q[i];
                    i += 1;
                    if map.get(&node.0).map(|m| m.1) == Some(node.1) {
                        vw += infos[&node.1].weight as u64;
                        vfreq += est[node.0 as usize] as u32;
                        victims.push(node);
                        retries = 0;
                    } else {
                        skipped.push(node);
                        retries += 1;
                        if retries > 5 {
                            *hit_limit = true;
                        }
                        if retries > retry_limit {
                            break;
                        }
                    }
                }
                if vw >= nw as u64 && cfreq > vfreq {
                    for vnode in victims {
                        map.remove(&vnode.0);
                        let inf = infos.get_mut(&vnode.1).unwrap();
                        if inf.admitted {
                            inf.admitted = false;
                            ec = ec.saturating_sub(1);
                            ws = ws.saturating_sub(inf.accounted as u64);
                            inf.accounted = 0;
                            q.retain(|n| n.1 != vnode.1);
                        }
                    }
                    admit(&mut q, &mut infos, &mut ec, &mut ws);
                } else {
                    map.remove(&key);
                }
                for n in skipped {
                    to_back(&mut q, n.1);
                }
            }
            OpSnap::Remove { entry } => {
                let inf = infos.get_mut(&entry.info_addr).unwrap();
                if inf.admitted {
                    inf.admitted = false;
                    ec = ec.saturating_sub(1);
                    ws = ws.saturating_sub(inf.accounted as u64);
                    inf.accounted = 0;
                    q.retain(|n| n.1 != entry.info_addr);
                }
            }
            _ => {}
        }
    }
    // 3. whatever is above the capacity now leaves from the least recently used end
    if let Some(c) = cap {
        let excess = ws.saturating_sub(c);
        let mut evicted = 0u64;
        while evicted < excess && !q.is_empty() {
            let node = q.remove(0);
            map.remove(&node.0);
            let inf = infos.get_mut(&node.1).unwrap();
            inf.admitted = false;
            ec = ec.saturating_sub(1);
            ws = ws.saturating_sub(inf.accounted as u64);
            evicted += inf.accounted as u64;
            inf.accounted = 0;
        }
    }
    (q, map.keys().cloned().collect(), ec, ws, contest)
}

/// Executes `op` on the real cache and evaluates every oracle.
pub fn step(cfg: &Cfg, sut: &mut Sut, m: &mut Model, pre: &Snapshot, op: Op, hasher: &TableHasher) -> StepOut {
    let mut viol: Vec<Violation> = Vec::new();
    let u = cfg.kind == Kind::U;
    let kdn = kd(cfg);
    let okind = op.kind();
    let pre_phys = phys(pre);
    let pre_sum = sum_w(pre);
    let m_pre = m.clone();

    // estimates read just before the op (C13 predicts from the implementation's own)
    let est: Vec<u8> = if cfg.lru {
        (0..=cfg.nkeys).map(|k| sut.estimate(k)).collect()
    } else {
        Vec::new()
    };

    let vid = m.next_vid;
    if op.takes_vid() {
        m.next_vid += 1;
    }

    // ---- execute on the real code
    let r = catch_unwind(AssertUnwindSafe(|| sut.apply(cfg, op, vid)));
    let obs = match r {
        Ok(o) => o,
        Err(p) => {
            let msg = panic_msg(&p);
            // raised by the single-thread scheduler, not by the library
            if msg.starts_with(SOLO_DEADLOCK) || msg.starts_with(SOLO_LIVELOCK) {
                let what = if msg.starts_with(SOLO_DEADLOCK) { "self-deadlock" } else { "livelock" };
                let at = if msg.starts_with(SOLO_DEADLOCK) {
                    msg.split(" at ").nth(1).and_then(|x| x.split(':').next()).unwrap_or("?").to_string()
                } else if let Some(x) = msg.split("retries at ").nth(1) {
                    x.split(' ').next().unwrap_or("?").to_string()
                } else {
                    "loop".to_string()
                };
                viol.push(v("C09", format!("{kdn}:{what}:{okind}:{at}"), format!("{okind} can never return: {msg}")));
                return StepOut { obs: Obs::Unit, post: None, viol, pending: 0, dead: true };
            }
            // a panic of the harness's own callback at a place where the harness did not
            // expect the library to call it: the caller's own panic, nothing is specified
            // about the state afterwards; the state is not explored further
            if msg.starts_with(CB_MARK) {
                return StepOut { obs: Obs::Unit, post: None, viol, pending: 0, dead: true };
            }
            if !DOCUMENTED_PANICS.iter().any(|d| msg.contains(d)) {
                let short: String = msg.chars().take(60).collect();
                viol.push(v("C08", format!("{kdn}:panic:{okind}:{short}"), format!("{okind} panicked: {msg}")));
            }
            return StepOut { obs: Obs::Unit, post: None, viol, pending: 0, dead: true };
        }
    };
    // an insert that returned although its value cannot be weighed / cloned: the library
    // did not call the callback there (it may do so later); nothing is specified, the
    // state is not explored further
    if matches!(op, Op::InsWP(_) | Op::InsCP(_)) && !matches!(obs, Obs::CbPanic(_)) {
        return StepOut { obs, post: None, viol, pending: 0, dead: true };
    }
    for p in tracker().take_problems() {
        viol.push(v("C11", format!("{kdn}:drop-protocol:{okind}"), p.clone()));
        viol.push(v("C08", format!("{kdn}:drop-protocol:{okind}"), p));
    }
    let post = match catch_unwind(AssertUnwindSafe(|| sut.snapshot())) {
        Ok(s) => s,
        Err(p) => {
            viol.push(v("C08", format!("{kdn}:panic:snapshot"), format!("snapshot panicked: {}", panic_msg(&p))));
            return StepOut { obs, post: None, viol, pending: 0, dead: true };
        }
    };
    let pending = post.read_ops.len() + post.write_ops.len();
    let quiescent = pending == 0;
    let post_phys = phys(&post);

    // ---- M-map: update, and lookups against MAY / MUST
    if let Op::Adv(n) | Op::IterAdv(n) = op {
        // (IterAdv: the iterator is consumed after the advance, so everything it yields
        // is a lookup at the new reading)
        m.now += n as i64 * cfg.tick_ms as i64;
        m.advances += 1;
    }
    let now = m.now;
    if !u {
        match op {
            Op::Sync => m.maintained = true,
            Op::Con(_) | Op::Iter | Op::CloneDrop => {}
            _ => m.maintained = cfg.autosync && !(cfg.lazyadv && matches!(op, Op::Adv(_))),
        }
    }

    let upper = |m: &Model, k: u8, seen: Option<u32>, how: &str, viol: &mut Vec<Violation>| {
        // a lookup produced something for k (seen = value id if known)
        let km = &m.keys[k as usize];
        let may = m.may(cfg, k);
        let ok = match (may, seen) {
            (Some(x), Some(id)) => x == id,
            (Some(_), None) => true,
            (None, _) => false,
        };
        if ok {
            return;
        }
        let d = format!(
            "{how} of key {k} yielded {:?} at reading {now}ms; model: has={} latest={} t_ins={} invalidated={} a_true={} (only {:?} may be returned)",
            seen, km.has, km.vid, km.t_ins, km.inval, km.a_true, may
        );
        if !km.ever {
            viol.push(v("C01", format!("{kdn}:phantom:{how}"), d));
        } else if !km.has {
            viol.push(v("C01", format!("{kdn}:visible-after-invalidate:{how}"), d.clone()));
            viol.push(v("C07", format!("{kdn}:visible-after-invalidate:{how}"), d));
        } else if km.inval {
            viol.push(v("C01", format!("{kdn}:visible-after-invalidate_all:{how}"), d.clone()));
            viol.push(v("C07", format!("{kdn}:visible-after-invalidate_all:{how}"), d));
        } else if seen.is_some() && seen != Some(km.vid) {
            viol.push(v("C01", format!("{kdn}:stale-value:{how}"), d));
        } else {
            if m.ttl_dead(cfg, k) {
                viol.push(v("C05", format!("{kdn}:visible-past-ttl:{how}"), d.clone()));
            }
            if m.tti_dead(cfg, k, false) {
                viol.push(v("C06", format!("{kdn}:visible-past-tti:{how}"), d));
            }
        }
    };
    let lower = |m: &Model, k: u8, how: &str, viol: &mut Vec<Violation>| {
        // a lookup produced nothing for k although the model is sure it is live
        let km = &m.keys[k as usize];
        let d = format!(
            "{how} of key {k} yielded nothing at reading {now}ms although value {} (inserted at {}, last applied access {}) is live and no capacity pressure ever existed (total inserted weight {} <= capacity {:?})",
            km.vid, km.t_ins, km.a_applied, m.total_w, cfg.cap
        );
        viol.push(v("C03", format!("{kdn}:live-entry-missing:{how}"), d.clone()));
        if m.inv_calls > 0 {
            viol.push(v("C07", format!("{kdn}:invalidation-not-precise:{how}"), d.clone()));
        }
        if how == "iter" {
            viol.push(v("C16", format!("{kdn}:iter-misses-live-entry"), d));
        }
    };

    // (iterinvall = an iterator is created, invalidate_all() returns, then the iterator is
    // consumed: for the model an invalidate_all followed by an iteration)
    let phases: Vec<Op> = if matches!(op, Op::IterInvAll) {
        vec![Op::InvAll, Op::Iter]
    } else if let (Op::GetCP(k), Obs::Val(_)) = (op, &obs) {
        // the lookup found nothing alive, so nothing was cloned: an ordinary get
        vec![Op::Get(k)]
    } else {
        vec![op]
    };
    for op in phases {
    match op {
        Op::Ins(k, w) => {
            let fresh = !pre_phys.contains_key(&k);
            let km = &mut m.keys[k as usize];
            let grew = !fresh && cfg.pw(weight_of(w)) > pre_phys[&k].weight;
            km.ever = true;
            km.has = true;
            km.vid = vid;
            km.w = weight_of(w);
            km.t_ins = now;
            km.inval = false;
            km.a_true = now;
            km.a_applied = now;
            m.seq += 1;
            km.use_seq = m.seq;
            if fresh {
                km.gen += 1;
            }
            m.total_w += cfg.pw(weight_of(w)) as u64;
            if u {
                m.excess_ok = grew;
            }
        }
        Op::Get(k) => {
            match &obs {
                Obs::Val(Some((id, _w))) => {
                    upper(m, k, Some(*id), "get", &mut viol);
                    let g = m.keys[k as usize].gen;
                    m.seq += 1;
                    let km = &mut m.keys[k as usize];
                    km.a_true = now;
                    km.use_seq = m.seq;
                    if u {
                        km.a_applied = now;
                    } else {
                        m.pending_reads.push_back(Some((k, now, g)));
                    }
                }
                Obs::Val(None) => {
                    if m.must(cfg, k).is_some() {
                        lower(m, k, "get", &mut viol);
                    }
                    if !u {
                        m.pending_reads.push_back(None);
                    }
                }
                _ => unreachable!(),
            }
            if u {
                m.excess_ok = false;
            }
        }
        Op::Con(k) => {
            match &obs {
                Obs::Bool(true) => upper(m, k, None, "contains_key", &mut viol),
                Obs::Bool(false) => {
                    if m.must(cfg, k).is_some() {
                        lower(m, k, "contains_key", &mut viol);
                    }
                }
                _ => unreachable!(),
            }
            if u {
                m.excess_ok = false;
            }
        }
        Op::Iter | Op::IterAdv(_) => {
            if let Obs::Items(items) = &obs {
                let mut seen_keys: Vec<u8> = Vec::new();
                for (k, id) in items {
                    if seen_keys.contains(k) {
                        viol.push(v("C16", format!("{kdn}:iter-duplicate-key"), format!("iteration yielded key {k} twice: {items:?}")));
                    }
                    seen_keys.push(*k);
                    let n0 = viol.len();
                    upper(m, *k, Some(*id), "iter", &mut viol);
                    if viol.len() > n0 {
                        let d = viol[n0].detail.clone();
                        viol.push(v("C16", format!("{kdn}:iter-yields-dead-entry"), d));
                    }
                }
                for k in 0..cfg.nkeys {
                    if let Some(id) = m.must(cfg, k) {
                        if !items.contains(&(k, id)) {
                            lower(m, k, "iter", &mut viol);
                        }
                    }
                }
                let same_reading = !u
                    && post.valid_after.is_some()
                    && post.entries.iter().any(|e| e.last_accessed >= post.valid_after && e.last_modified < post.valid_after);
                if settled(cfg, quiescent) && (u || m.maintained) && !cfg.has_expiry() && items.len() as u64 != post.entry_count {
                    viol.push(v(
                        "C10",
                        format!("{kdn}:entry_count!=iter-count:{}", if same_reading { "read-at-the-reading-of-invalidate_all" } else { "other" }),
                        format!("no expiry configured, entry_count()={} but iteration yields {} entries", post.entry_count, items.len()),
                    ));
                }
            }
        }
        Op::Inv(k) | Op::InvDP(k) => {
            m.keys[k as usize].has = false;
            m.inv_calls += 1;
            if u {
                m.excess_ok = false;
            }
        }
        Op::InvAll => {
            m.inv_calls += 1;
            for km in m.keys.iter_mut() {
                if u {
                    km.has = false;
                } else if km.has && km.t_ins < now {
                    km.inval = true;
                }
            }
        }
        Op::InvIf(Pred::Once) => {
            // stateful predicate: the SUT reports the key it answered "true" for
            m.inv_calls += 1;
            if let Obs::Items(chosen) = &obs {
                for (k, _) in chosen {
                    m.keys[*k as usize].has = false;
                }
            }
        }
        Op::InvIf(Pred::PanicAt1) => {
            m.inv_calls += 1;
            match &obs {
                // the predicate was never shown key 1: an ordinary call
                Obs::Items(chosen) => {
                    for (k, _) in chosen {
                        m.keys[*k as usize].has = false;
                    }
                }
                // it panicked half way: whether the entries it had selected before are
                // gone is not specified - the model follows the implementation for
                // exactly those; every other entry must be untouched
                Obs::CbPanic(chosen) => {
                    for (k, _) in chosen {
                        if !post_phys.contains_key(k) {
                            m.keys[*k as usize].has = false;
                        }
                    }
                }
                _ => unreachable!(),
            }
        }
        Op::InvIf(p) => {
            m.inv_calls += 1;
            for (k, km) in m.keys.iter_mut().enumerate() {
                if km.has && p.eval(k as u8, km.w) {
                    km.has = false;
                }
            }
        }
        // the caller's weigher / Clone panicked inside insert: nothing was inserted (U:
        // the call had already done the maintenance every call begins with)
        Op::InsWP(_) | Op::InsCP(_) => {
            if u {
                m.excess_ok = false;
            }
        }
        // the clone of the stored value panicked: the lookup had found a live entry (it
        // must be one the model allows), and it is NOT a successful get - the idle timer,
        // the recency and the read log are as before
        Op::GetCP(k) => {
            upper(m, k, None, "get", &mut viol);
        }
        Op::Adv(_) | Op::Sync | Op::CloneDrop => {}
        Op::IterInvAll => unreachable!(),
    }
    }

    // S: which read records has maintenance applied by now?
    if !u {
        while m.pending_reads.len() > post.read_ops.len() {
            if let Some(Some((k, t, g))) = m.pending_reads.pop_front() {
                let km = &mut m.keys[k as usize];
                if km.gen == g && t > km.a_applied {
                    km.a_applied = t;
                }
            }
        }
    }

    // ---- M-room (C03): a new key whose weight fits always gets in and evicts nothing
    if let Op::Ins(k, w) = op {
        let pw = cfg.pw(weight_of(w)) as u64;
        // Room is computed from the residents the implementation holds. Once
        // maintenance has run (U: every call purges first; S: the previous call was
        // sync()), entries whose deadline has passed or that were invalidated no longer
        // count: they must have been purged, and their weight given back.
        let purged_view = u || m_pre.maintained;
        let held: u64 = if purged_view {
            pre.entries.iter().filter(|e| m_pre.live(cfg, e.key as u8)).map(|e| e.weight as u64).sum()
        } else {
            pre_sum
        };
        let fits = match cfg.cap {
            None => true,
            Some(c) => held + pw <= c,
        };
        if !pre_phys.contains_key(&k) && fits {
            let busy: Vec<u8> = pre
                .write_ops
                .iter()
                .map(|o| match o {
                    OpSnap::Upsert { entry, .. } | OpSnap::Remove { entry } => entry.key as u8,
                    _ => 255,
                })
                .collect();
            let protect: Vec<u8> = pre
                .entries
                .iter()
                .filter(|e| (u || e.admitted) && m_pre.live(cfg, e.key as u8) && !busy.contains(&(e.key as u8)))
                .map(|e| e.key as u8)
                .collect();
            if u {
                check_room(cfg, &post_phys, k, vid, &protect, pre_sum, &mut viol);
            } else if cfg.ttl != Some(0) && cfg.tti != Some(0) {
                m.obligation = Some(Oblig { k, vid, protect });
            }
        } else if !u {
            m.obligation = None;
        }
    } else if !u && !matches!(op, Op::Get(_) | Op::Con(_) | Op::Iter | Op::Sync | Op::CloneDrop) {
        m.obligation = None;
    }
    if !u && post.write_ops.is_empty() {
        if let Some(o) = m.obligation.take() {
            check_room(cfg, &post_phys, o.k, o.vid, &o.protect, pre_sum, &mut viol);
        }
    }

    // ---- C12 / C03: no live resident is evicted for size unless that was needed. When no
    // new key was admitted in this step, the last victim of a size eviction is one
    // without which the cache was still above its capacity; if every live resident that
    // vanished would still fit next to what is held now, none of them had to go.
    if let Some(cap) = cfg.cap {
        let admitted_now = post.entries.iter().any(|e| {
            (u || e.admitted) && !pre_phys.get(&(e.key as u8)).map(|p| u || p.admitted).unwrap_or(false)
        });
        let gone: Vec<&EntrySnap> = pre
            .entries
            .iter()
            .filter(|e| (u || e.admitted) && !post_phys.contains_key(&(e.key as u8)) && m.live(cfg, e.key as u8))
            .collect();
        // judged in hindsight, so only where the size eviction is the last thing the step
        // did: U get/contains_key (purge, evict, then only read); S an explicit or
        // automatic sync() (writes and purge come before the eviction inside the run)
        let eviction_last = if u { matches!(op, Op::Get(_) | Op::Con(_)) } else { matches!(op, Op::Sync) || (cfg.autosync && !(cfg.lazyadv && matches!(op, Op::Adv(_)))) };
        // a key whose first insert was still queued and that is absent afterwards may have
        // been admitted and evicted inside the run: then the visible victims are not all
        let transient = pre.write_ops.iter().any(|o| matches!(o, OpSnap::Upsert { entry, .. } if !entry.admitted && !post_phys.contains_key(&(entry.key as u8))))
            || matches!(op, Op::Ins(k, _) if !pre_phys.contains_key(&k) && !post_phys.contains_key(&k));
        if eviction_last && !admitted_now && !transient && !gone.is_empty() {
            let total = sum_w(&post);
            // the weight an entry had when it was evicted is its latest one (the step may
            // have applied an update of it first)
            let latest = |e: &EntrySnap| cfg.pw(m.keys[e.key as usize].w) as u64;
            if gone.iter().all(|e| total + latest(e) <= cap) {
                let d = format!(
                    "after {}: live resident(s) {:?} were evicted although the cache now holds weight {total} of {cap}: each of them would still fit",
                    op.text(),
                    gone.iter().map(|e| (e.key, e.weight)).collect::<Vec<_>>()
                );
                viol.push(v("C12", format!("{kdn}:evicted-without-need:{okind}"), d.clone()));
                viol.push(v("C03", format!("{kdn}:evicted-without-need:{okind}"), d));
            }
        }
    }

    // the weight the configured weigher gives each stored value (known from the model when
    // the entry holds the latest value of its key), else what the implementation stored
    let true_weight = |e: &EntrySnap| -> u64 {
        let km = &m.keys[e.key as usize];
        if km.has && km.vid as u64 == e.value {
            cfg.pw(km.w) as u64
        } else {
            e.weight as u64
        }
    };
    if settled(cfg, quiescent) {
        for e in &post.entries {
            if true_weight(e) != e.weight as u64 {
                viol.push(v(
                    "C10",
                    format!("{kdn}:stored-weight!=weigher(value)"),
                    format!("after {okind}: key {} holds value {} which the weigher weighs {}, but the cache accounts {} for it", e.key, e.value, true_weight(e), e.weight),
                ));
            }
        }
    }
    // ---- C04: resident weight within capacity
    if let Some(cap) = cfg.cap {
        let total: u64 = post.entries.iter().map(|e| true_weight(e)).sum();
        if settled(cfg, quiescent) && total > cap && !(u && m.excess_ok) {
            viol.push(v(
                "C04",
                format!("{kdn}:resident-weight-above-capacity:after={okind}"),
                format!("after {okind}: resident weight {total} > max_capacity {cap}; residents {:?}", post.entries.iter().map(|e| (e.key, e.weight)).collect::<Vec<_>>()),
            ));
        }
    }

    // ---- C10: counters equal what is physically held
    // (on S a disagreement with what maintenance has admitted is reported by the
    // every-snapshot clause below with its call site; not twice)
    let s_drift = !u && {
        let (want_ec, want_ws) = admitted_accounting(&post);
        post.entry_count != want_ec || post.weighted_size != want_ws
    };
    if settled(cfg, quiescent) && !s_drift {
        if post.entry_count != post.entries.len() as u64 {
            viol.push(v(
                "C10",
                format!("{kdn}:entry_count!=map_len:after={okind}"),
                format!("after {okind}: entry_count()={} but the map holds {} entries", post.entry_count, post.entries.len()),
            ));
        }
        let total = sum_w(&post);
        if post.weighted_size != total {
            viol.push(v(
                "C10",
                format!("{kdn}:weighted_size!=sum_weights:after={okind}"),
                format!("after {okind}: weighted_size()={} but the stored weights sum to {total}", post.weighted_size),
            ));
        }
    }

    // ---- C10 (S, every snapshot): the published counters equal what maintenance has
    // admitted so far: one per admitted entry, with the weight it has accounted for
    // it (at quiescence the clause above compares with the weights really stored).
    if !u {
        let (want_ec, want_ws) = admitted_accounting(&post);
        if post.entry_count != want_ec || post.weighted_size != want_ws {
            // call-site discriminator: an admitted entry left the cache in this step
            // while an update changing its weight was still queued
            let pre_adm = admitted_infos(pre);
            let post_adm = admitted_infos(&post);
            let mut reweighed_victim = false;
            for op in &pre.write_ops {
                if let OpSnap::Upsert { entry, old_weight, new_weight, .. } = op {
                    if old_weight != new_weight && pre_adm.contains_key(&entry.info_addr) && !post_adm.contains_key(&entry.info_addr) {
                        let invalidated = pre.write_ops.iter().any(|o| matches!(o, OpSnap::Remove { entry: e } if e.info_addr == entry.info_addr));
                        if !invalidated {
                            reweighed_victim = true;
                        }
                    }
                }
            }
            // the update may also be the current call itself: it changes the weight in
            // the shared entry info, then runs maintenance BEFORE queueing its own op
            if let Op::Ins(k, w) = op {
                if let Some(e) = pre_phys.get(&k) {
                    if e.admitted && e.weight != cfg.pw(weight_of(w)) && !post_adm.contains_key(&e.info_addr) {
                        reweighed_victim = true;
                    }
                }
            }
            let site = if reweighed_victim { "entry-removed-while-reweigh-queued" } else { "other" };
            viol.push(v(
                "C10",
                format!("S:counters-drift:{site}"),
                format!(
                    "after {okind}: entry_count()={} weighted_size()={} but maintenance has admitted {want_ec} entries weighing {want_ws} (map {:?})",
                    post.entry_count,
                    post.weighted_size,
                    post.entries.iter().map(|e| (e.key, e.weight, e.admitted)).collect::<Vec<_>>()
                ),
            ));
        }
    }

    // ---- C11: invalidated and expired entries are released once maintenance has run
    // (U: the calls that begin with the purge; S: the previous call was sync()).
    let purging_call = if u { matches!(op, Op::Ins(..) | Op::Get(_) | Op::Con(_) | Op::Inv(_) | Op::InvDP(_) | Op::InsWP(_)) } else { m.maintained };
    // one purge pass handles a bounded batch (100 / 500 nodes per queue): the clause
    // speaks about caches smaller than one batch
    let within_one_batch = {
        let k = mini_moka::verif::constants();
        pre.entries.len() <= if u { k.unsync_eviction_batch } else { k.sync_eviction_batch }
    };
    if purging_call && within_one_batch {
        let dead = |k: u8| -> Option<&'static str> {
            let km = &m.keys[k as usize];
            if !km.has || km.inval {
                Some("invalidated")
            } else if m.ttl_dead(cfg, k) || m.tti_dead(cfg, k, true) {
                Some("expired")
            } else {
                None
            }
        };
        // one entry read at exactly the reading of invalidate_all (la == va > lm) is
        // hidden through last_modified but looks alive to the access-order purge scan
        let same_reading = !u
            && post.valid_after.is_some()
            && (post.entries.iter().any(|x| x.last_accessed >= post.valid_after && x.last_modified < post.valid_after)
                // ... or was such an entry while this maintenance run scanned (its hit was
                // applied by this run) and has been evicted for size afterwards in the same run
                || pre.read_ops.iter().any(|o| matches!(o, OpSnap::Hit { entry, timestamp, .. } if Some(*timestamp) >= post.valid_after && entry.last_modified < post.valid_after)));
        for e in &post.entries {
            let k = e.key as u8;
            let why = match dead(k) {
                Some(w) => w,
                None => continue,
            };
            // the entry this very call inserted may be dead on arrival (ttl/tti of zero)
            if matches!(op, Op::Ins(k2, _) if k2 == k) {
                continue;
            }
            // the purge scans stop at the first live node of their queue: is a live
            // entry ahead of this one in the queue that would have to purge it?
            let ahead_live = |d: &DequeSnap| -> bool {
                match d.nodes.iter().position(|n| n.key == e.key) {
                    Some(p) => d.nodes[..p].iter().any(|n| dead(n.key as u8).is_none()),
                    None => false,
                }
            };
            // ... or was one ahead of it when the purge ran and has been evicted for size
            // afterwards in the same maintenance run (the size eviction takes the front)?
            let live_evicted_in_this_step = pre
                .entries
                .iter()
                .any(|x| {
                    // (an entry whose insert was still queued is admitted by this run
                    // before the purge scan and can be evicted for size after it too)
                    let joins_queue = x.admitted
                        || pre.write_ops.iter().any(|o| matches!(o, OpSnap::Upsert { entry, old_weight: 0, .. } if entry.info_addr == x.info_addr));
                    joins_queue && dead(x.key as u8).is_none() && m.keys[x.key as usize].has && !post_phys.contains_key(&(x.key as u8))
                });
            // which scan could have purged it? the access-order scan tests the idle
            // deadline and the invalidate_all watermark, the write-order scan (it exists
            // only with a ttl) the ttl deadline and the watermark
            let km = &m.keys[k as usize];
            let inval = !km.has || km.inval;
            let ao_can = inval || m.tti_dead(cfg, k, true);
            let wo_can = cfg.ttl_ms().is_some() && (inval || m.ttl_dead(cfg, k));
            let blocked_ao = ahead_live(&post.probation) || live_evicted_in_this_step;
            let blocked_wo = ahead_live(&post.write_order);
            let site = if !u && ao_can && blocked_ao && (!wo_can || blocked_wo) {
                // (the access-order queue is not sorted by last_accessed when a read was
                // applied before its entry's admission: known finding)
                "behind-live-entry-in-purge-queue"
            } else if !u && !ao_can && wo_can && blocked_wo {
                // the write-order queue IS sorted by last_modified in every sequential
                // history of the unchanged code: not a known site
                "behind-live-entry-in-write-order-queue"
            } else if same_reading {
                // (repaired by the fix commit for finding 9(a); reported again should it return:
                // the entry is at the front of its queue, or nothing live is ahead of it)
                "read-at-the-reading-of-invalidate_all"
            } else {
                "other"
            };
            let d = format!(
                "after {okind}: key {} is {why} but its entry (value {}) is still held after maintenance (probation order {:?})",
                e.key,
                e.value,
                post.probation.nodes.iter().map(|n| n.key).collect::<Vec<_>>()
            );
            viol.push(v("C11", format!("{kdn}:{why}-entry-kept:{site}"), d.clone()));
            if why == "invalidated" && !cfg.has_expiry() {
                viol.push(v("C10", format!("{kdn}:counts-invalidated-entry:{site}"), d));
            }
        }
    }

    // ---- C11: live objects equal resident entries
    if settled(cfg, quiescent) {
        let (lk, lv) = tracker().live();
        let n = post.entries.len() as i64;
        if lk != n || lv != n {
            viol.push(v(
                "C11",
                format!("{kdn}:live-objects!=residents:after={okind}"),
                format!("after {okind}: {lk} live keys and {lv} live values for {n} resident entries"),
            ));
        }
    }

    // ---- C08: structure
    viol.extend(walk(cfg, &post, quiescent));

    // ---- C12 / C13: recency order, victims, admission decision
    if cfg.lru && (u || cfg.autosync) && !(cfg.lazyadv && matches!(op, Op::Adv(_))) {
        let (want, decision, lru_before) = predict_lru(cfg, &m_pre, m, pre, op, &est);
        let got: Vec<u8> = post.probation.nodes.iter().map(|n| n.key as u8).collect();
        // a dead entry that maintenance failed to purge is reported by the release
        // clause (C11); the recency comparison would only repeat it
        let purge_failed = viol.iter().any(|x| x.sig.contains("-entry-kept:"));
        if want != got && !purge_failed {
            let mut ws = want.clone();
            ws.sort();
            let mut gs = got.clone();
            gs.sort();
            let d = format!(
                "after {}: residents from least to most recently used should be {want:?}, the implementation has {got:?} (estimates before the op {est:?}, residents before {:?})",
                op.text(),
                pre.entries.iter().map(|e| (e.key, e.weight)).collect::<Vec<_>>()
            );
            if let (Op::Ins(k, _), Some(dec)) = (op, decision) {
                if gs.contains(&k) != dec {
                    // whatever the decision should have been: if the newcomer is in, the
                    // residents that made room must be the least recently used ones
                    // (maintenance-after-every-op, no expiry: nothing else removes entries)
                    if gs.contains(&k) && !cfg.has_expiry() {
                        let gone: Vec<u8> = lru_before.iter().cloned().filter(|x| *x != k && !gs.contains(x)).collect();
                        let prefix: Vec<u8> = lru_before.iter().cloned().filter(|x| *x != k).take(gone.len()).collect();
                        if gone != prefix {
                            viol.push(v("C12", format!("{kdn}:victims-not-an-lru-prefix"), d.clone()));
                        }
                    }
                    viol.push(v("C13", format!("{kdn}:admission-decision:predicted={dec}"), d));
                } else if !dec {
                    viol.push(v("C13", format!("{kdn}:rejection-touched-residents"), d));
                } else if ws != gs {
                    viol.push(v("C12", format!("{kdn}:victims-not-shortest-lru-prefix"), d));
                } else {
                    viol.push(v("C12", format!("{kdn}:recency-order:{okind}"), d));
                }
            } else if ws != gs {
                viol.push(v("C12", format!("{kdn}:evicted-set:{okind}"), d));
            } else {
                viol.push(v("C12", format!("{kdn}:recency-order:{okind}"), d));
            }
        }
    }

    // ---- a sync() with nobody else around drains both queues (fewer ops than a batch):
    // ops left behind keep their entries alive (C11), are never accounted (C10) and mean
    // maintenance does not do its work (C09)
    if !u && (matches!(op, Op::Sync) || cfg.autosync) && pre.read_ops.len() < 60 && pre.write_ops.len() < 60 && pending > 0 {
        let d = format!("after {}: {} read and {} write ops are still queued although maintenance has just run and no other thread exists", op.text(), post.read_ops.len(), post.write_ops.len());
        for p in ["C09", "C10", "C11"] {
            viol.push(v(p, format!("{kdn}:sync-left-ops-queued"), d.clone()));
        }
    }

    // ---- C12 / C13 for a whole maintenance pass over queued ops (no maintenance after
    // every op): the pass is predicted from the queues it found
    if !u && !cfg.autosync && matches!(op, Op::Sync) && !cfg.has_expiry() && pre.valid_after.is_none() && pre.read_ops.len() < 64 && pre.write_ops.len() < 64 {
        let est_post: Vec<u8> = (0..=cfg.nkeys).map(|k| sut.estimate(k)).collect();
        // The victim walk of the implementation gives up after more than 5 consecutive
        // leftovers of keys that are gone; the property knows no such limit ("the shortest
        // LRU prefix of RESIDENTS"). Where the walk meets that many, both outcomes are
        // accepted: giving up there (what the code does) and walking on.
        let mut hit_limit = false;
        let (mut wq, mut wres, mut wec, mut wws, mut contest) = predict_pass(cfg, pre, &est_post, 5, &mut hit_limit);
        if hit_limit {
            let got_q0: Vec<u64> = post.probation.nodes.iter().map(|n| n.key).collect();
            let mut got_res0: Vec<u64> = post.entries.iter().map(|e| e.key).collect();
            got_res0.sort();
            if got_q0 != wq.iter().map(|n| n.0).collect::<Vec<_>>() || got_res0 != wres {
                let mut h2 = false;
                let alt = predict_pass(cfg, pre, &est_post, usize::MAX, &mut h2);
                wq = alt.0;
                wres = alt.1;
                wec = alt.2;
                wws = alt.3;
                contest = alt.4;
            }
        }
        let got_q: Vec<u64> = post.probation.nodes.iter().map(|n| n.key).collect();
        let want_q: Vec<u64> = wq.iter().map(|n| n.0).collect();
        let mut got_res: Vec<u64> = post.entries.iter().map(|e| e.key).collect();
        got_res.sort();
        if got_q != want_q || got_res != wres || post.entry_count != wec || post.weighted_size != wws {
            let d = format!(
                "after sync over {} queued reads and {} queued writes: the pass should leave residents {wres:?} in recency order {want_q:?} with counters ({wec},{wws}); the implementation has residents {got_res:?}, order {got_q:?}, counters ({},{}) (estimates {est_post:?}; before: order {:?}, map {:?}, writes {:?})",
                pre.read_ops.len(),
                pre.write_ops.len(),
                post.entry_count,
                post.weighted_size,
                pre.probation.nodes.iter().map(|n| n.key).collect::<Vec<_>>(),
                pre.entries.iter().map(|e| (e.key, e.weight, e.admitted)).collect::<Vec<_>>(),
                pre.write_ops
                    .iter()
                    .map(|o| match o {
                        OpSnap::Upsert { entry, new_weight, .. } => format!("upsert({},{})", entry.key, new_weight),
                        OpSnap::Remove { entry } => format!("remove({})", entry.key),
                        _ => String::new(),
                    })
                    .collect::<Vec<_>>()
            );
            if got_res != wres && contest {
                viol.push(v("C13", format!("{kdn}:batched-pass:residents"), d.clone()));
            }
            if got_res != wres {
                viol.push(v("C12", format!("{kdn}:batched-pass:residents"), d));
            } else if got_q != want_q {
                viol.push(v("C12", format!("{kdn}:batched-pass:recency-order"), d));
            } else {
                viol.push(v("C10", format!("{kdn}:batched-pass:counters"), d));
            }
        }
    }

    // ---- C13/C14: the sketch is switched on once the cache is half full (U: by the
    // insert that gets it there; S: by the maintenance run), so that lookups from then
    // on are recorded
    if let Some(cap) = cfg.cap {
        let reached = post.weighted_size >= cap / 2;
        let checked_now = if u { matches!(op, Op::Ins(k, _) if !pre_phys.contains_key(&k) && post_phys.contains_key(&k)) } else { m.maintained && matches!(op, Op::Sync) || (cfg.autosync && !(cfg.lazyadv && matches!(op, Op::Adv(_)))) };
        if checked_now && reached && !post.sketch.enabled {
            let d = format!("after {}: weighted_size {} >= max_capacity/2 = {} but the popularity sketch is still disabled (lookups are not recorded)", op.text(), post.weighted_size, cap / 2);
            viol.push(v("C14", format!("{kdn}:sketch-not-enabled-at-half-full"), d.clone()));
            viol.push(v("C13", format!("{kdn}:sketch-not-enabled-at-half-full"), d));
        }
    }
    // ---- C14 (cache clause): the table is allocated once, when the sketch is enabled;
    // allocating it again forgets every recorded lookup without an aging step
    if pre.sketch.table_len > 0 && post.sketch.table_len != pre.sketch.table_len && !pre.sketch.table.is_empty() {
        viol.push(v(
            "C14",
            format!("{kdn}:sketch-reallocated:{okind}"),
            format!("after {}: the popularity table went from {} to {} words and lost {} non-zero words of counts", op.text(), pre.sketch.table_len, post.sketch.table_len, pre.sketch.table.len()),
        ));
    }
    // ---- C14 (cache clause): only get is recorded, once
    if pre.sketch.table_len == post.sketch.table_len && (pre.sketch.size as u64 + 4 < pre.sketch.sample_size as u64 || pre.sketch.table_len == 0) {
        let mut want: BTreeMap<u32, u64> = pre.sketch.table.iter().cloned().collect();
        let mut hashes: Vec<u64> = Vec::new();
        // (a get whose clone of the stored value panicked records nothing)
        let get_key = match (op, &obs) {
            (Op::Get(k), _) => Some(k),
            (Op::GetCP(k), Obs::Val(_)) => Some(k),
            _ => None,
        };
        if u {
            if let Some(k) = get_key {
                hashes.push(hasher.hash_of(k));
            }
        } else {
            let mut all: Vec<u64> = pre
                .read_ops
                .iter()
                .map(|o| match o {
                    OpSnap::Hit { hash, .. } | OpSnap::Miss { hash } => *hash,
                    _ => 0,
                })
                .collect();
            if let Some(k) = get_key {
                all.push(hasher.hash_of(k));
            }
            let applied = all.len().saturating_sub(post.read_ops.len());
            hashes.extend_from_slice(&all[..applied]);
            if all.len() < post.read_ops.len() {
                viol.push(v("C14", format!("{kdn}:extra-read-record:{okind}"), format!("{okind} left {} read records queued where at most {} were expected", post.read_ops.len(), all.len())));
            }
        }
        for h in hashes {
            sketch_inc(&mut want, pre.sketch.table_len, h);
        }
        want.retain(|_, w| *w != 0);
        let got: BTreeMap<u32, u64> = post.sketch.table.iter().cloned().collect();
        if want != got {
            viol.push(v(
                "C14",
                format!("{kdn}:sketch-delta:{okind}"),
                format!("after {}: popularity table changed unexpectedly; expected {want:x?}, got {got:x?}", op.text()),
            ));
        }
    }

    StepOut { obs, post: Some(post), viol, pending, dead: false }
}

/// info address -> weight accounted by maintenance, for admitted entries, collected
/// from the map and from everything the queued ops reference.
fn admitted_infos(s: &Snapshot) -> BTreeMap<usize, u64> {
    let mut out: BTreeMap<usize, u64> = BTreeMap::new();
    let mut note = |e: &EntrySnap| {
        if e.admitted {
            out.entry(e.info_addr).or_insert(e.accounted as u64);
        }
    };
    for e in &s.entries {
        note(e);
    }
    for op in s.read_ops.iter().chain(s.write_ops.iter()) {
        match op {
            OpSnap::Hit { entry, .. } | OpSnap::Upsert { entry, .. } | OpSnap::Remove { entry } => note(entry),
            OpSnap::Miss { .. } => {}
        }
    }
    out
}

fn admitted_accounting(s: &Snapshot) -> (u64, u64) {
    let a = admitted_infos(s);
    (a.len() as u64, a.values().sum())
}

fn settled(cfg: &Cfg, quiescent: bool) -> bool {
    cfg.kind == Kind::U || quiescent
}

fn check_room(
    cfg: &Cfg,
    post_phys: &BTreeMap<u8, &EntrySnap>,
    k: u8,
    vid: u32,
    protect: &[u8],
    pre_sum: u64,
    viol: &mut Vec<Violation>,
) {
    let kdn = kd(cfg);
    match post_phys.get(&k) {
        Some(e) if e.value == vid as u64 => {}
        other => viol.push(v(
            "C03",
            format!("{kdn}:fitting-insert-refused"),
            format!(
                "insert of new key {k} fits (held weight {pre_sum} + its weight <= max_capacity {:?}) but afterwards the map holds {:?} for it",
                cfg.cap,
                other.map(|e| e.value)
            ),
        )),
    }
    for p in protect {
        if !post_phys.contains_key(p) {
            viol.push(v(
                "C03",
                format!("{kdn}:fitting-insert-evicted-resident"),
                format!("insert of new key {k} fits in the remaining capacity but resident key {p} was removed"),
            ));
        }
    }
}
