//! Configuration, operation alphabet and the thin wrapper that executes one
//! operation on a real cache (`unsync::Cache` or `sync::Cache`).

use crate::common::*;
use mini_moka::sync::ConcurrentCacheExt;
use mini_moka::verif::{MockClock, Snapshot};
use std::time::Duration;

pub type UC = mini_moka::unsync::Cache<K, V, TableHasher>;
pub type SC = mini_moka::sync::Cache<K, V, TableHasher>;

#[derive(Clone, Copy, PartialEq, Eq, Debug)]
pub enum Kind {
    U,
    S,
}

#[derive(Clone, Debug, PartialEq)]
pub struct Cfg {
    pub kind: Kind,
    pub cap: Option<u64>,
    pub weigher: bool,
    /// in ticks
    pub ttl: Option<u32>,
    /// in ticks
    pub tti: Option<u32>,
    pub hash: HashKind,
    pub tick_ms: u64,
    /// length of the time unit `tick_ms` counts in, in nanoseconds: 1 000 000 (a
    /// millisecond) unless a job asks for an odd unit, so that no reading, deadline or
    /// duration is a whole number of milliseconds or microseconds (the model keeps
    /// counting in units)
    pub unit_ns: u64,
    /// S: start in the "beyond" housekeeping regime (no automatic maintenance
    /// until 64 ops are pending)
    pub beyond: bool,
    /// S: call sync() after every operation (Q = 0)
    pub autosync: bool,
    /// with autosync: no sync() after a clock advance (autosync=2), so that entries can be
    /// expired but not purged when the next call begins
    pub lazyadv: bool,
    pub nkeys: u8,
    /// bound: max operations left pending in the queues of S
    pub q: usize,
    /// bound: max number of clock advances in a history
    pub a: usize,
    /// bound: history depth
    pub d: usize,
    /// alphabet name
    pub alpha: String,
    /// evaluate the LRU / TinyLFU prediction oracle (C12/C13)
    pub lru: bool,
    /// evaluate the purity check (C15) at every new state
    pub pure_check: bool,
    pub max_states: usize,
    /// operations executed before the search starts (exploration from a non-initial
    /// state), encoded as `ins:0:1+sync+...`
    pub pre: String,
}

impl Default for Cfg {
    fn default() -> Self {
        Cfg {
            kind: Kind::U,
            cap: None,
            weigher: false,
            ttl: None,
            tti: None,
            hash: HashKind::Spread,
            tick_ms: 1000,
            unit_ns: 1_000_000,
            beyond: true,
            autosync: false,
            lazyadv: false,
            nkeys: 3,
            q: 2,
            a: 1,
            d: 6,
            alpha: "basic".into(),
            lru: false,
            pure_check: false,
            max_states: 3_000_000,
            pre: String::new(),
        }
    }
}

fn opt<T: std::fmt::Display>(o: &Option<T>) -> String {
    match o {
        None => "none".into(),
        Some(v) => v.to_string(),
    }
}

impl Cfg {
    pub fn spec(&self) -> String {
        format!(
            "kind={},cap={},w={},ttl={},tti={},hash={},tick={},beyond={},autosync={},keys={},Q={},A={},D={},alpha={},lru={},pure={},max={}{}",
            if self.kind == Kind::U { "U" } else { "S" },
            opt(&self.cap),
            self.weigher as u8,
            opt(&self.ttl),
            opt(&self.tti),
            self.hash.name(),
            self.tick_ms,
            self.beyond as u8,
            if self.lazyadv { 2 } else { self.autosync as u8 },
            self.nkeys,
            self.q,
            self.a,
            self.d,
            self.alpha,
            self.lru as u8,
            self.pure_check as u8,
            self.max_states,
            format!("{}{}", if self.unit_ns == 1_000_000 { String::new() } else { format!(",unit={}", self.unit_ns) }, if self.pre.is_empty() { String::new() } else { format!(",pre={}", self.pre) })
        )
    }

    pub fn parse(s: &str) -> Cfg {
        let mut c = Cfg::default();
        for kv in s.split(',') {
            let kv = kv.trim();
            if kv.is_empty() {
                continue;
            }
            let (k, v) = kv.split_once('=').unwrap_or_else(|| panic!("bad cfg item {kv}"));
            let on = |v: &str| -> Option<u64> {
                if v == "none" {
                    None
                } else {
                    Some(v.parse().unwrap())
                }
            };
            match k {
                "kind" => c.kind = if v == "U" { Kind::U } else { Kind::S },
                "cap" => c.cap = on(v),
                "w" => c.weigher = v == "1",
                "ttl" => c.ttl = on(v).map(|x| x as u32),
                "tti" => c.tti = on(v).map(|x| x as u32),
                "hash" => c.hash = HashKind::parse(v),
                "tick" => c.tick_ms = v.parse().unwrap(),
                "unit" => c.unit_ns = v.parse().unwrap(),
                "beyond" => c.beyond = v == "1",
                "autosync" => {
                    c.autosync = v == "1" || v == "2";
                    c.lazyadv = v == "2";
                }
                "keys" => c.nkeys = v.parse().unwrap(),
                "Q" => c.q = v.parse().unwrap(),
                "A" => c.a = v.parse().unwrap(),
                "D" => c.d = v.parse().unwrap(),
                "alpha" => c.alpha = v.to_string(),
                "lru" => c.lru = v == "1",
                "pure" => c.pure_check = v == "1",
                "max" => c.max_states = v.parse().unwrap(),
                "pre" => c.pre = v.to_string(),
                _ => panic!("unknown cfg key {k}"),
            }
        }
        c
    }

    /// The prefix operations (`pre=`), decoded.
    pub fn pre_ops(&self) -> Vec<Op> {
        self.pre
            .split('+')
            .filter(|x| !x.is_empty())
            .map(|x| {
                let parts: Vec<&str> = x.split(':').collect();
                let args = parts[1..].join(",");
                Op::parse(&if args.is_empty() { parts[0].to_string() } else { format!("{}({})", parts[0], args) })
            })
            .collect()
    }

    pub fn pw(&self, w: u32) -> u32 {
        if self.weigher {
            w
        } else {
            1
        }
    }
    /// n ticks as a duration of the mock clock
    pub fn ticks(&self, n: u64) -> Duration {
        let ns = n as u128 * self.tick_ms as u128 * self.unit_ns as u128;
        Duration::new((ns / 1_000_000_000) as u64, (ns % 1_000_000_000) as u32)
    }
    pub fn ttl_ms(&self) -> Option<i64> {
        self.ttl.map(|t| t as i64 * self.tick_ms as i64)
    }
    pub fn tti_ms(&self) -> Option<i64> {
        self.tti.map(|t| t as i64 * self.tick_ms as i64)
    }
    pub fn has_expiry(&self) -> bool {
        self.ttl.is_some() || self.tti.is_some()
    }
}

#[derive(Clone, Copy, Debug, PartialEq, Eq, Hash)]
pub enum Pred {
    /// keys whose bit is set in the mask
    Keys(u8),
    /// entries whose value weight field equals w
    WeightEq(u8),
    All,
    Never,
    /// stateful: true for the first entry it is asked about, false from then on (the SUT
    /// reports which key that was)
    Once,
    /// true for key 0, false for key 2 and above, and it PANICS when it is shown key 1
    /// (the caller catches the panic and goes on using the cache)
    PanicAt1,
}

impl Pred {
    pub fn eval(&self, k: u8, w: u32) -> bool {
        match *self {
            Pred::Keys(m) => k < 8 && (m >> k) & 1 == 1,
            Pred::WeightEq(x) => w == x as u32,
            Pred::All => true,
            Pred::Never => false,
            Pred::Once => false,
            Pred::PanicAt1 => k == 0,
        }
    }
}

#[derive(Clone, Copy, Debug, PartialEq, Eq, Hash)]
pub enum Op {
    Ins(u8, u8),
    Get(u8),
    Con(u8),
    Iter,
    Inv(u8),
    InvAll,
    InvIf(Pred),
    Adv(u8),
    Sync,
    /// create an iterator, advance the clock by n ticks, then consume it
    IterAdv(u8),
    /// sync cache: create an iterator, call invalidate_all(), then consume the iterator
    IterInvAll,
    /// insert of a value the caller's weigher panics on (weigher configured)
    InsWP(u8),
    /// insert of a value whose `Clone` panics (the concurrent cache clones values)
    InsCP(u8),
    /// concurrent cache: a get during which `Clone` of the stored value panics (if the key
    /// is found alive); the caller catches the panic
    GetCP(u8),
    /// concurrent cache: a second handle is created (`clone()`) and dropped again
    CloneDrop,
    /// single-threaded cache: invalidate(k) during which `Drop` of the removed value panics
    InvDP(u8),
}

impl Op {
    /// does the harness hand a fresh value id to this operation?
    pub fn takes_vid(&self) -> bool {
        matches!(self, Op::Ins(..) | Op::InsWP(_) | Op::InsCP(_))
    }
    pub fn kind(&self) -> &'static str {
        match self {
            Op::Ins(..) => "insert",
            Op::Get(_) => "get",
            Op::Con(_) => "contains_key",
            Op::Iter => "iter",
            Op::Inv(_) => "invalidate",
            Op::InvAll => "invalidate_all",
            Op::InvIf(_) => "invalidate_entries_if",
            Op::Adv(_) => "advance",
            Op::Sync => "sync",
            Op::IterAdv(_) => "iter-across-advance",
            Op::IterInvAll => "iter-across-invalidate_all",
            Op::InsWP(_) => "insert-weigher-panics",
            Op::InsCP(_) => "insert-clone-panics",
            Op::GetCP(_) => "get-clone-panics",
            Op::CloneDrop => "clone-and-drop-handle",
            Op::InvDP(_) => "invalidate-drop-panics",
        }
    }
    pub fn text(&self) -> String {
        match *self {
            Op::Ins(k, w) => format!("ins({k},{w})"),
            Op::Get(k) => format!("get({k})"),
            Op::Con(k) => format!("con({k})"),
            Op::Iter => "iter".into(),
            Op::Inv(k) => format!("inv({k})"),
            Op::InvAll => "invall".into(),
            Op::InvIf(Pred::Keys(m)) => format!("invif(keys:{m})"),
            Op::InvIf(Pred::WeightEq(w)) => format!("invif(w:{w})"),
            Op::InvIf(Pred::All) => "invif(all)".into(),
            Op::InvIf(Pred::Never) => "invif(never)".into(),
            Op::InvIf(Pred::Once) => "invif(once)".into(),
            Op::InvIf(Pred::PanicAt1) => "invif(panic1)".into(),
            Op::InsWP(k) => format!("inswp({k})"),
            Op::InsCP(k) => format!("inscp({k})"),
            Op::GetCP(k) => format!("getcp({k})"),
            Op::Adv(n) => format!("adv({n})"),
            Op::Sync => "sync".into(),
            Op::IterAdv(n) => format!("iteradv({n})"),
            Op::IterInvAll => "iterinvall".into(),
            Op::CloneDrop => "clonedrop".into(),
            Op::InvDP(k) => format!("invdp({k})"),
        }
    }
    pub fn parse(s: &str) -> Op {
        let s = s.trim();
        let (name, args) = match s.split_once('(') {
            Some((n, rest)) => (n, rest.trim_end_matches(')')),
            None => (s, ""),
        };
        let nums: Vec<&str> = args.split(',').map(|x| x.trim()).collect();
        let n = |i: usize| -> u8 { nums[i].parse().unwrap_or_else(|_| panic!("bad op {s}")) };
        match name {
            "ins" => Op::Ins(n(0), n(1)),
            "get" => Op::Get(n(0)),
            "con" => Op::Con(n(0)),
            "iter" => Op::Iter,
            "inv" => Op::Inv(n(0)),
            "invall" => Op::InvAll,
            "invif" => {
                if args == "all" {
                    Op::InvIf(Pred::All)
                } else if args == "never" {
                    Op::InvIf(Pred::Never)
                } else if args == "once" {
                    Op::InvIf(Pred::Once)
                } else if args == "panic1" {
                    Op::InvIf(Pred::PanicAt1)
                } else if let Some(m) = args.strip_prefix("keys:") {
                    Op::InvIf(Pred::Keys(m.parse().unwrap()))
                } else if let Some(w) = args.strip_prefix("w:") {
                    Op::InvIf(Pred::WeightEq(w.parse().unwrap()))
                } else {
                    panic!("bad op {s}")
                }
            }
            "adv" => Op::Adv(n(0)),
            "sync" => Op::Sync,
            "iteradv" => Op::IterAdv(n(0)),
            "iterinvall" => Op::IterInvAll,
            "inswp" => Op::InsWP(n(0)),
            "inscp" => Op::InsCP(n(0)),
            "getcp" => Op::GetCP(n(0)),
            "clonedrop" => Op::CloneDrop,
            "invdp" => Op::InvDP(n(0)),
            _ => panic!("bad op {s}"),
        }
    }
}

pub fn ops_text(ops: &[Op]) -> String {
    ops.iter().map(|o| o.text()).collect::<Vec<_>>().join(" ")
}

pub fn parse_ops(s: &str) -> Vec<Op> {
    s.split_whitespace().map(Op::parse).collect()
}

/// The weight an insert's value carries (what the by-value weigher returns). Codes
/// 250..=252 stand for weights whose sums cross `u32::MAX`.
pub fn weight_of(code: u8) -> u32 {
    match code {
        250 => 1 << 31,
        251 => 3 << 30,
        252 => u32::MAX,
        w => w as u32,
    }
}

/// What an operation returned.
#[derive(Clone, Debug, PartialEq, Eq, Hash)]
pub enum Obs {
    Unit,
    Val(Option<(u32, u32)>),
    Bool(bool),
    Items(Vec<(u8, u32)>),
    /// the caller's own callback panicked inside the call (and the caller caught it); for
    /// a predicate: the keys it had answered `true` for before
    CbPanic(Vec<(u8, u32)>),
}

/// Runs one call whose callback may panic with the harness marker: that panic is caught
/// here (the application catches it and goes on using the cache); any other panic goes on.
fn cb_guard(f: impl FnOnce()) -> bool {
    match std::panic::catch_unwind(std::panic::AssertUnwindSafe(f)) {
        Ok(()) => false,
        Err(p) => {
            if panic_msg(&p).starts_with(CB_MARK) {
                true
            } else {
                std::panic::resume_unwind(p)
            }
        }
    }
}

pub enum Sut {
    U { c: UC, clock: MockClock },
    S { c: SC, clock: MockClock },
}

impl Sut {
    pub fn new(cfg: &Cfg, hasher: TableHasher) -> Sut {
        let tick = |n: u32| cfg.ticks(n as u64);
        match cfg.kind {
            Kind::U => {
                let mut b = mini_moka::unsync::Cache::<K, V>::builder();
                if let Some(c) = cfg.cap {
                    b = b.max_capacity(c);
                }
                if cfg.weigher {
                    b = b.weigher(|_k: &K, v: &V| weigh_v(v));
                }
                if let Some(t) = cfg.ttl {
                    b = b.time_to_live(tick(t));
                }
                if let Some(t) = cfg.tti {
                    b = b.time_to_idle(tick(t));
                }
                let mut c = b.build_with_hasher(hasher);
                let clock = c.verif_install_mock_clock();
                Sut::U { c, clock }
            }
            Kind::S => {
                mini_moka::verif::set_shard_amount(4);
                let mut b = mini_moka::sync::Cache::<K, V>::builder();
                if let Some(c) = cfg.cap {
                    b = b.max_capacity(c);
                }
                if cfg.weigher {
                    b = b.weigher(|_k: &K, v: &V| weigh_v(v));
                }
                if let Some(t) = cfg.ttl {
                    b = b.time_to_live(tick(t));
                }
                if let Some(t) = cfg.tti {
                    b = b.time_to_idle(tick(t));
                }
                let c = b.build_with_hasher(hasher);
                let clock = c.verif_install_mock_clock();
                if cfg.beyond {
                    // move past the periodic-sync deadline armed at creation
                    clock.advance(Duration::from_millis(1000));
                }
                Sut::S { c, clock }
            }
        }
    }

    pub fn clock(&self) -> &MockClock {
        match self {
            Sut::U { clock, .. } | Sut::S { clock, .. } => clock,
        }
    }

    /// Executes one operation on the real cache. `vid` is the id given to the value
    /// if the operation is an insert.
    pub fn apply(&mut self, cfg: &Cfg, op: Op, vid: u32) -> Obs {
        crate::common::solo_reset();
        let obs = match self {
            Sut::U { c, clock } => match op {
                Op::Ins(k, w) => {
                    c.insert(K::new(k), V::new(vid, weight_of(w)));
                    Obs::Unit
                }
                Op::Get(k) => Obs::Val(c.get(&K::probe(k)).map(|v| (v.id, v.w))),
                Op::Con(k) => Obs::Bool(c.contains_key(&K::probe(k))),
                Op::Iter => {
                    let mut v: Vec<(u8, u32)> = c.iter().map(|(k, v)| (k.k, v.id)).collect();
                    v.sort();
                    Obs::Items(v)
                }
                Op::Inv(k) => {
                    c.invalidate(&K::probe(k));
                    Obs::Unit
                }
                Op::InvAll => {
                    c.invalidate_all();
                    Obs::Unit
                }
                Op::InvIf(Pred::Once) => {
                    // a stateful predicate: selects the first entry it is shown
                    let chosen = std::rc::Rc::new(std::cell::RefCell::new(Vec::<(u8, u32)>::new()));
                    let ch = chosen.clone();
                    let mut asked = 0u32;
                    c.invalidate_entries_if(move |k, _v| {
                        asked += 1;
                        if asked == 1 {
                            ch.borrow_mut().push((k.k, 0));
                            true
                        } else {
                            false
                        }
                    });
                    let v = chosen.borrow().clone();
                    Obs::Items(v)
                }
                Op::InvIf(Pred::PanicAt1) => {
                    let trues = std::rc::Rc::new(std::cell::RefCell::new(Vec::<(u8, u32)>::new()));
                    let tr = trues.clone();
                    let panicked = cb_guard(|| {
                        c.invalidate_entries_if(move |k, _v| {
                            if k.k == 1 {
                                panic!("{CB_MARK}: predicate");
                            }
                            if k.k == 0 {
                                tr.borrow_mut().push((0, 0));
                            }
                            k.k == 0
                        })
                    });
                    let v = trues.borrow().clone();
                    if panicked {
                        Obs::CbPanic(v)
                    } else {
                        Obs::Items(v)
                    }
                }
                Op::InvIf(p) => {
                    c.invalidate_entries_if(move |k, v| p.eval(k.k, v.w));
                    Obs::Unit
                }
                Op::InsWP(k) => {
                    if cb_guard(|| c.insert(K::new(k), V::new(vid, W_WEIGH_PANICS))) {
                        Obs::CbPanic(vec![])
                    } else {
                        Obs::Unit
                    }
                }
                Op::InsCP(_) | Op::GetCP(_) => panic!("harness: the unsync cache never clones a value"),
                Op::Adv(n) => {
                    clock.advance(cfg.ticks(n as u64));
                    Obs::Unit
                }
                Op::Sync => Obs::Unit,
                Op::IterAdv(n) => {
                    let it = c.iter();
                    clock.advance(cfg.ticks(n as u64));
                    let mut v: Vec<(u8, u32)> = it.map(|(k, v)| (k.k, v.id)).collect();
                    v.sort();
                    Obs::Items(v)
                }
                Op::IterInvAll => panic!("harness: the unsync cache cannot be invalidated while an iterator borrows it"),
                Op::CloneDrop => panic!("harness: the unsync cache has one owner"),
                Op::InvDP(k) => {
                    DROP_PANICS_NOW.store(true, std::sync::atomic::Ordering::SeqCst);
                    let panicked = cb_guard(|| c.invalidate(&K::probe(k)));
                    DROP_PANICS_NOW.store(false, std::sync::atomic::Ordering::SeqCst);
                    if panicked {
                        Obs::CbPanic(vec![])
                    } else {
                        Obs::Unit
                    }
                }
            },
            Sut::S { c, clock } => match op {
                Op::Ins(k, w) => {
                    c.insert(K::new(k), V::new(vid, weight_of(w)));
                    Obs::Unit
                }
                Op::Get(k) => Obs::Val(c.get(&K::probe(k)).map(|v| (v.id, v.w))),
                Op::Con(k) => Obs::Bool(c.contains_key(&K::probe(k))),
                Op::Iter => {
                    let mut v: Vec<(u8, u32)> =
                        c.iter().map(|r| (r.key().k, r.value().id)).collect();
                    v.sort();
                    Obs::Items(v)
                }
                Op::Inv(k) => {
                    c.invalidate(&K::probe(k));
                    Obs::Unit
                }
                Op::InvAll => {
                    c.invalidate_all();
                    Obs::Unit
                }
                Op::InvIf(_) => panic!("harness: sync cache has no invalidate_entries_if"),
                Op::InsWP(k) => {
                    if cb_guard(|| c.insert(K::new(k), V::new(vid, W_WEIGH_PANICS))) {
                        Obs::CbPanic(vec![])
                    } else {
                        Obs::Unit
                    }
                }
                Op::InsCP(k) => {
                    if cb_guard(|| c.insert(K::new(k), V::new(vid, W_CLONE_PANICS))) {
                        Obs::CbPanic(vec![])
                    } else {
                        Obs::Unit
                    }
                }
                Op::GetCP(k) => {
                    let mut got = None;
                    CLONE_PANICS_NOW.store(true, std::sync::atomic::Ordering::SeqCst);
                    let panicked = cb_guard(|| got = c.get(&K::probe(k)).map(|v| (v.id, v.w)));
                    CLONE_PANICS_NOW.store(false, std::sync::atomic::Ordering::SeqCst);
                    if panicked {
                        Obs::CbPanic(vec![])
                    } else {
                        Obs::Val(got)
                    }
                }
                Op::Adv(n) => {
                    clock.advance(cfg.ticks(n as u64));
                    Obs::Unit
                }
                Op::Sync => {
                    c.sync();
                    Obs::Unit
                }
                Op::IterAdv(n) => {
                    let it = c.iter();
                    clock.advance(cfg.ticks(n as u64));
                    let mut v: Vec<(u8, u32)> = it.map(|r| (r.key().k, r.value().id)).collect();
                    v.sort();
                    Obs::Items(v)
                }
                Op::CloneDrop => {
                    drop(c.clone());
                    Obs::Unit
                }
                Op::InvDP(_) => panic!("harness: invdp is an operation of the unsync cache"),
                Op::IterInvAll => {
                    // (no map guard is held before the first next())
                    let it = c.iter();
                    c.invalidate_all();
                    let mut v: Vec<(u8, u32)> = it.map(|r| (r.key().k, r.value().id)).collect();
                    v.sort();
                    Obs::Items(v)
                }
            },
        };
        if cfg.autosync && !(cfg.lazyadv && matches!(op, Op::Adv(_))) {
            if let Sut::S { c, .. } = self {
                c.sync();
            }
        }
        obs
    }

    pub fn snapshot(&self) -> Snapshot {
        match self {
            Sut::U { c, .. } => c.verif_snapshot(|k| k.k as u64, |v| v.id as u64),
            Sut::S { c, .. } => c.verif_snapshot(|k| k.k as u64, |v| v.id as u64),
        }
    }

    pub fn estimate(&self, k: u8) -> u8 {
        match self {
            Sut::U { c, .. } => c.verif_estimate(&K::probe(k)),
            Sut::S { c, .. } => c.verif_estimate(&K::probe(k)),
        }
    }

    pub fn counters(&self) -> (u64, u64) {
        match self {
            Sut::U { c, .. } => (c.entry_count(), c.weighted_size()),
            Sut::S { c, .. } => (c.entry_count(), c.weighted_size()),
        }
    }
}

/// Alphabets, simplest operations first so that the first counterexample found
/// by breadth-first search is also the easiest to read.
pub fn alphabet(cfg: &Cfg) -> Vec<Op> {
    let n = cfg.nkeys;
    let ws: Vec<u8> = if cfg.weigher {
        match cfg.alpha.as_str() {
            // weights incl. zero and (for small caps) oversized
            "weights" | "lru" => vec![1, 2, 0, 3],
            "c04" => vec![1, 2, 0, 3, 4],
            _ => vec![1, 2],
        }
    } else {
        vec![1]
    };
    let mut a = Vec::new();
    let ins = |a: &mut Vec<Op>, keys: u8| {
        for k in 0..keys {
            for &w in &ws {
                a.push(Op::Ins(k, w));
            }
        }
    };
    let per_key = |a: &mut Vec<Op>, f: fn(u8) -> Op, keys: u8| {
        for k in 0..keys {
            a.push(f(k));
        }
    };
    let s = cfg.kind == Kind::S;
    match cfg.alpha.as_str() {
        // everything C01 quantifies over
        "basic" | "weights" | "c04" => {
            ins(&mut a, n);
            per_key(&mut a, Op::Get, n);
            per_key(&mut a, Op::Con, n);
            a.push(Op::Iter);
            per_key(&mut a, Op::Inv, n);
            a.push(Op::InvAll);
            if s {
                a.push(Op::IterInvAll);
                // handles come and go while operations are pending
                a.push(Op::CloneDrop);
            }
            if !s {
                a.push(Op::InvIf(Pred::Keys(0b001)));
                a.push(Op::InvIf(Pred::Keys(0b110)));
                a.push(Op::InvIf(Pred::All));
                a.push(Op::InvIf(Pred::Once));
                if cfg.weigher {
                    a.push(Op::InvIf(Pred::WeightEq(1)));
                }
            }
            if cfg.a > 0 {
                a.push(Op::Adv(1));
                if cfg.has_expiry() {
                    a.push(Op::Adv(2));
                }
                if cfg.has_expiry() && cfg.a >= 2 {
                    a.push(Op::IterAdv(2));
                }
            }
            if s && !cfg.autosync {
                a.push(Op::Sync);
            }
        }
        // expiry-centred: no invalidation, lookups and clock
        "expiry" => {
            ins(&mut a, n);
            per_key(&mut a, Op::Get, n);
            per_key(&mut a, Op::Con, n.min(2));
            a.push(Op::Iter);
            a.push(Op::Adv(1));
            a.push(Op::Adv(2));
            // the clock moves while an iterator is alive
            a.push(Op::IterAdv(2));
            // arms the invalidate_all watermark, which shares code with the expiry checks
            a.push(Op::InvAll);
            if s && !cfg.autosync {
                a.push(Op::Sync);
            }
        }
        // invalidation-centred
        "inval" => {
            ins(&mut a, n);
            per_key(&mut a, Op::Get, n);
            per_key(&mut a, Op::Con, n.min(2));
            a.push(Op::Iter);
            per_key(&mut a, Op::Inv, n);
            a.push(Op::InvAll);
            if s {
                a.push(Op::IterInvAll);
            }
            if !s {
                a.push(Op::InvIf(Pred::Keys(0b001)));
                a.push(Op::InvIf(Pred::Keys(0b110)));
                a.push(Op::InvIf(Pred::All));
                a.push(Op::InvIf(Pred::Once));
                a.push(Op::InvIf(Pred::Never));
                if cfg.weigher {
                    a.push(Op::InvIf(Pred::WeightEq(1)));
                }
            }
            if cfg.a > 0 {
                a.push(Op::Adv(1));
            }
            if s && !cfg.autosync {
                a.push(Op::Sync);
            }
        }
        // recency / popularity: inserts, hits and misses, invalidate by key
        "lru" => {
            ins(&mut a, n);
            per_key(&mut a, Op::Get, n);
            per_key(&mut a, Op::Inv, n.min(2));
            if !s {
                a.push(Op::InvIf(Pred::Keys(0b001)));
            }
            if cfg.a > 0 && cfg.has_expiry() {
                a.push(Op::Adv(1));
            }
            if s && !cfg.autosync {
                a.push(Op::Sync);
            }
        }
        // pointer-sharing situations: re-insert after invalidate, stale rejection,
        // several victims (C08 quick)
        "stress" => {
            ins(&mut a, n);
            per_key(&mut a, Op::Get, n);
            per_key(&mut a, Op::Inv, n);
            a.push(Op::InvAll);
            if s {
                a.push(Op::CloneDrop);
            }
            if !s {
                a.push(Op::InvIf(Pred::Keys(0b001)));
                a.push(Op::InvIf(Pred::All));
            }
            if cfg.a > 0 {
                a.push(Op::Adv(1));
            }
            if s && !cfg.autosync {
                a.push(Op::Sync);
            }
        }
        // the caller's own callbacks panic (weigher, predicate, Clone of a value), the caller
        // catches the panic and goes on using the cache
        "callbacks" => {
            ins(&mut a, n);
            per_key(&mut a, Op::Get, n);
            per_key(&mut a, Op::Inv, n.min(2));
            if cfg.weigher {
                per_key(&mut a, Op::InsWP, n.min(2));
            }
            if s {
                per_key(&mut a, Op::InsCP, n.min(2));
                per_key(&mut a, Op::GetCP, n.min(2));
            } else {
                a.push(Op::InvIf(Pred::PanicAt1));
                a.push(Op::InvIf(Pred::Keys(0b001)));
                // (`invdp` - an invalidation during which the value's destructor panics - is
                // implemented but deliberately NOT part of any alphabet: DESIGN.md section 8,
                // round 19)
            }
            a.push(Op::InvAll);
            a.push(Op::Iter);
            if cfg.a > 0 {
                a.push(Op::Adv(1));
            }
            if s && !cfg.autosync {
                a.push(Op::Sync);
            }
        }
        // weights whose sums cross u32::MAX (capacity 2^33)
        "bigw" => {
            for k in 0..n {
                // (a small weight too: updates from 1 to > i32::MAX and back)
                for w in [250u8, 251, 252, 1] {
                    a.push(Op::Ins(k, w));
                }
            }
            per_key(&mut a, Op::Get, n);
            per_key(&mut a, Op::Inv, n.min(2));
            // several heavy entries leave in one call (their weights are summed up)
            if !s {
                a.push(Op::InvIf(Pred::All));
                a.push(Op::InvIf(Pred::Keys(0b011)));
            }
            a.push(Op::InvAll);
            if cfg.a > 0 && cfg.has_expiry() {
                a.push(Op::Adv(2));
            }
            if s && !cfg.autosync {
                a.push(Op::Sync);
            }
        }
        other => panic!("unknown alphabet {other}"),
    }
    a
}
