//! E4: explicit-state search over the intrusive doubly linked list (real
//! `common::deque::Deque` through the facade) against a Vec + cursor reference.
//! The state space with at most N live nodes is finite; the search runs to its
//! fixpoint (or to the depth bound) and checks every transition.

use crate::common::*;
use mini_moka::verif::DequeFacade;
use std::collections::HashSet;
use std::panic::{catch_unwind, AssertUnwindSafe};
use std::time::Instant;

#[derive(Clone, Copy, Debug, PartialEq, Eq, Hash)]
pub enum DOp {
    PushBack,
    PopFront,
    PeekFront,
    MoveFrontToBack,
    MoveToBack(u8),
    UnlinkDrop(u8),
    Contains(u8),
    NextOf(u8),
    CursorNext,
    /// unlink node i without freeing it (the caller keeps it)
    Unlink(u8),
    /// `contains` on a detached (unlinked, still allocated) node
    ContainsDetached(u8),
    /// link detached node j at the back again
    Relink(u8),
    /// free detached node j
    FreeDetached(u8),
}

impl DOp {
    fn text(&self) -> String {
        match self {
            DOp::PushBack => "push_back".into(),
            DOp::PopFront => "pop_front".into(),
            DOp::PeekFront => "peek_front".into(),
            DOp::MoveFrontToBack => "move_front_to_back".into(),
            DOp::MoveToBack(i) => format!("move_to_back({i})"),
            DOp::UnlinkDrop(i) => format!("unlink_and_drop({i})"),
            DOp::Contains(i) => format!("contains({i})"),
            DOp::NextOf(i) => format!("next_of({i})"),
            DOp::CursorNext => "cursor_next".into(),
            DOp::Unlink(i) => format!("unlink({i})"),
            DOp::ContainsDetached(i) => format!("contains_detached({i})"),
            DOp::Relink(i) => format!("relink({i})"),
            DOp::FreeDetached(i) => format!("free_detached({i})"),
        }
    }
    fn parse(s: &str) -> DOp {
        let (n, a) = match s.split_once('(') {
            Some((n, r)) => (n, r.trim_end_matches(')').parse::<u8>().unwrap_or(0)),
            None => (s, 0),
        };
        match n {
            "push_back" => DOp::PushBack,
            "pop_front" => DOp::PopFront,
            "peek_front" => DOp::PeekFront,
            "move_front_to_back" => DOp::MoveFrontToBack,
            "move_to_back" => DOp::MoveToBack(a),
            "unlink_and_drop" => DOp::UnlinkDrop(a),
            "contains" => DOp::Contains(a),
            "next_of" => DOp::NextOf(a),
            "cursor_next" => DOp::CursorNext,
            "unlink" => DOp::Unlink(a),
            "contains_detached" => DOp::ContainsDetached(a),
            "relink" => DOp::Relink(a),
            "free_detached" => DOp::FreeDetached(a),
            _ => panic!("bad deque op {s}"),
        }
    }
}

#[derive(Clone, Debug, PartialEq, Eq)]
enum Cur {
    None,
    At(u32), // element id
    Done,
}

/// Reference: order of element ids plus the cursor of `impl Iterator for &mut Deque`.
#[derive(Clone, Debug)]
struct Ref {
    order: Vec<u32>,
    cur: Cur,
    next_id: u32,
    /// unlinked but still allocated nodes
    detached: Vec<u32>,
}

impl Ref {
    fn advance(&mut self) {
        self.cur = match &self.cur {
            Cur::None => Cur::None,
            Cur::Done => Cur::None,
            Cur::At(id) => {
                let p = self.order.iter().position(|x| x == id).unwrap();
                if p + 1 < self.order.len() {
                    Cur::At(self.order[p + 1])
                } else {
                    Cur::Done
                }
            }
        };
    }
    fn at(&self, id: u32) -> bool {
        self.cur == Cur::At(id)
    }
}

struct Live {
    f: DequeFacade<V>,
    /// element id -> node address, in the reference's order
    addr: Vec<(u32, usize)>,
    /// detached nodes: element id -> node address
    det: Vec<(u32, usize)>,
}

impl Live {
    fn addr_of(&self, id: u32) -> usize {
        self.addr.iter().find(|x| x.0 == id).unwrap().1
    }
}

/// Applies `op` to the real list and the reference; returns what each observed.
fn apply(l: &mut Live, r: &mut Ref, op: DOp) -> (String, String) {
    match op {
        DOp::PushBack => {
            let id = r.next_id;
            r.next_id += 1;
            r.order.push(id);
            let a = l.f.push_back(V::new(id, 0));
            l.addr.push((id, a));
            ("()".into(), "()".into())
        }
        DOp::PopFront => {
            let want = if r.order.is_empty() {
                None
            } else {
                let id = r.order[0];
                if r.at(id) {
                    r.advance();
                }
                r.order.remove(0);
                Some(id)
            };
            let got = l.f.pop_front().map(|v| v.id);
            if let Some(id) = got {
                l.addr.retain(|x| x.0 != id);
            }
            (format!("{got:?}"), format!("{want:?}"))
        }
        DOp::PeekFront => {
            let want = r.order.first().cloned();
            let got = l.f.peek_front().map(|(_, v)| v.id);
            let gp = l.f.peek_front_ptr();
            let wp = want.map(|id| l.addr_of(id));
            (format!("{got:?}/{gp:?}"), format!("{want:?}/{wp:?}"))
        }
        DOp::MoveFrontToBack => {
            if let Some(&id) = r.order.first() {
                if r.order.len() > 1 {
                    if r.at(id) {
                        r.advance();
                    }
                    r.order.remove(0);
                    r.order.push(id);
                }
            }
            l.f.move_front_to_back();
            ("()".into(), "()".into())
        }
        DOp::MoveToBack(i) => {
            let id = r.order[i as usize];
            let a = l.addr_of(id);
            if *r.order.last().unwrap() != id {
                if r.at(id) {
                    r.advance();
                }
                r.order.remove(i as usize);
                r.order.push(id);
            }
            unsafe { l.f.move_to_back(a) };
            ("()".into(), "()".into())
        }
        DOp::UnlinkDrop(i) => {
            let id = r.order[i as usize];
            let a = l.addr_of(id);
            if r.at(id) {
                r.advance();
            }
            r.order.remove(i as usize);
            l.addr.retain(|x| x.0 != id);
            unsafe { l.f.unlink_and_drop(a) };
            ("()".into(), "()".into())
        }
        DOp::Contains(i) => {
            let id = r.order[i as usize];
            let got = unsafe { l.f.contains(l.addr_of(id)) };
            (format!("{got}"), "true".into())
        }
        DOp::NextOf(i) => {
            let id = r.order[i as usize];
            let want = r.order.get(i as usize + 1).map(|n| l.addr_of(*n));
            let got = unsafe { l.f.next_of(l.addr_of(id)) };
            (format!("{got:?}"), format!("{want:?}"))
        }
        DOp::Unlink(i) => {
            let id = r.order[i as usize];
            let a = l.addr_of(id);
            if r.at(id) {
                r.advance();
            }
            r.order.remove(i as usize);
            r.detached.push(id);
            l.addr.retain(|x| x.0 != id);
            l.det.push((id, a));
            unsafe { l.f.unlink(a) };
            ("()".into(), "()".into())
        }
        DOp::ContainsDetached(j) => {
            let (_id, a) = l.det[j as usize];
            let got = unsafe { l.f.contains(a) };
            (format!("{got}"), "false".into())
        }
        DOp::Relink(j) => {
            let (id, a) = l.det.remove(j as usize);
            r.detached.remove(j as usize);
            r.order.push(id);
            let a2 = unsafe { l.f.push_back_unlinked(a) };
            l.addr.push((id, a2));
            ("()".into(), "()".into())
        }
        DOp::FreeDetached(j) => {
            let (id, a) = l.det.remove(j as usize);
            r.detached.remove(j as usize);
            let v = unsafe { DequeFacade::<V>::free_unlinked(a) };
            (format!("{}", v.id), format!("{id}"))
        }
        DOp::CursorNext => {
            if r.cur == Cur::None {
                if let Some(&h) = r.order.first() {
                    r.cur = Cur::At(h);
                }
            }
            let want = match &r.cur {
                Cur::At(id) => Some(*id),
                _ => None,
            };
            r.advance();
            let got = l.f.cursor_next().map(|v| v.id);
            (format!("{got:?}"), format!("{want:?}"))
        }
    }
}

fn enabled(r: &Ref, max_nodes: usize) -> Vec<DOp> {
    let n = r.order.len();
    let mut v = Vec::new();
    if n + r.detached.len() < max_nodes {
        v.push(DOp::PushBack);
    }
    v.push(DOp::PopFront);
    v.push(DOp::PeekFront);
    v.push(DOp::MoveFrontToBack);
    v.push(DOp::CursorNext);
    for i in 0..n as u8 {
        v.push(DOp::MoveToBack(i));
    }
    for i in 0..n as u8 {
        v.push(DOp::UnlinkDrop(i));
    }
    for i in 0..n as u8 {
        v.push(DOp::Contains(i));
    }
    for i in 0..n as u8 {
        v.push(DOp::NextOf(i));
    }
    if r.detached.len() < 2 {
        for i in 0..n as u8 {
            v.push(DOp::Unlink(i));
        }
    }
    for j in 0..r.detached.len() as u8 {
        v.push(DOp::ContainsDetached(j));
        v.push(DOp::Relink(j));
        v.push(DOp::FreeDetached(j));
    }
    v
}

/// Runs `ops` from an empty list, checking the oracle on the LAST op only when
/// `check_last` (prefixes were checked when they were discovered).
fn execute(ops: &[DOp]) -> Result<(Ref, Vec<(String, String)>), String> {
    tracker().reset();
    let mut l = Live { f: DequeFacade::new(), addr: vec![], det: vec![] };
    let mut r = Ref { order: vec![], cur: Cur::None, next_id: 0, detached: vec![] };
    let mut problems: Vec<(String, String)> = Vec::new();
    for (n, op) in ops.iter().enumerate() {
        let last = n + 1 == ops.len();
        let (got, want) = apply(&mut l, &mut r, *op);
        if !last {
            continue;
        }
        if got != want {
            problems.push((format!("deque:result:{}", op.text().split('(').next().unwrap()), format!("{} returned {got}, reference says {want}", op.text())));
        }
        let snap = l.f.snapshot(|v| v.id as u64);
        if let Some(p) = &snap.malformed {
            problems.push(("deque:malformed".into(), p.clone()));
        }
        let order: Vec<u32> = snap.nodes.iter().map(|x| x.key as u32).collect();
        if order != r.order || snap.len != r.order.len() {
            problems.push((format!("deque:order:{}", op.text().split('(').next().unwrap()), format!("after {}: list is {order:?} (len {}), reference {:?}", op.text(), snap.len, r.order)));
        }
        let cur = match snap.cursor {
            None => Cur::None,
            Some(None) => Cur::Done,
            Some(Some(a)) => match l.addr.iter().find(|x| x.1 == a) {
                Some((id, _)) => Cur::At(*id),
                None => {
                    problems.push(("deque:cursor-dangling".into(), format!("after {}: cursor points at a node that is not linked", op.text())));
                    Cur::None
                }
            },
        };
        if cur != r.cur {
            problems.push((format!("deque:cursor:{}", op.text().split('(').next().unwrap()), format!("after {}: cursor {cur:?}, reference {:?}", op.text(), r.cur)));
        }
        let (_lk, lv) = tracker().live();
        if lv != (r.order.len() + r.detached.len()) as i64 {
            problems.push(("deque:live-elements".into(), format!("after {}: {lv} live elements for {} linked and {} detached nodes", op.text(), r.order.len(), r.detached.len())));
        }
    }
    for (_, a) in l.det.drain(..) {
        drop(unsafe { DequeFacade::<V>::free_unlinked(a) });
    }
    drop(l);
    let (_, lv) = tracker().live();
    if lv != 0 {
        problems.push(("deque:leak-after-drop".into(), format!("{lv} elements alive after dropping the list")));
    }
    for p in tracker().take_problems() {
        problems.push(("deque:double-drop".into(), p));
    }
    Ok((r, problems))
}

pub fn witness(ops: &[DOp]) -> String {
    format!("dequex||{}", ops.iter().map(|o| o.text()).collect::<Vec<_>>().join(" "))
}

pub struct DequeResult {
    pub max_nodes: usize,
    pub states: u64,
    pub transitions: u64,
    pub depth_done: usize,
    pub fixpoint: bool,
    pub capped: bool,
    pub outcomes: usize,
    pub violations: Vec<Violation>,
    pub viol_total: u64,
    pub samples: Vec<String>,
    pub wall_s: f64,
}

impl DequeResult {
    pub fn to_json(&self) -> String {
        format!(
            "{{\"engine\":\"dequex\",\"spec\":{},\"states\":{},\"transitions\":{},\"depth_done\":{},\"fixpoint\":{},\"capped\":{},\"outcomes\":{},\"viol_total\":{},\"violations\":{},\"samples\":{},\"wall_s\":{:.3}}}",
            jstr(&format!("max_nodes={}", self.max_nodes)),
            self.states,
            self.transitions,
            self.depth_done,
            self.fixpoint,
            self.capped,
            self.outcomes,
            self.viol_total,
            jlist(&self.violations.iter().map(|v| v.to_json()).collect::<Vec<_>>()),
            jlist(&self.samples.iter().map(|s| jstr(s)).collect::<Vec<_>>()),
            self.wall_s
        )
    }
}

pub fn run(max_nodes: usize, depth: usize, wall_cap_s: f64) -> DequeResult {
    let t0 = Instant::now();
    let mut res = DequeResult { max_nodes, states: 1, transitions: 0, depth_done: 0, fixpoint: false, capped: false, outcomes: 0, violations: vec![], viol_total: 0, samples: vec![], wall_s: 0.0 };
    let mut seen: HashSet<u128> = HashSet::new();
    let mut sigs: HashSet<String> = HashSet::new();
    let mut outcomes: HashSet<String> = HashSet::new();
    // canonical: ids renamed by rank (identities are interchangeable), cursor position
    let canon = |r: &Ref| -> u128 {
        let mut sorted = r.order.clone();
        sorted.sort_unstable();
        let mut c = Canon::default();
        for id in &r.order {
            c.u32(sorted.binary_search(id).unwrap() as u32);
        }
        c.tag("|");
        c.u32(r.detached.len() as u32);
        match &r.cur {
            Cur::None => c.u8(0),
            Cur::Done => c.u8(1),
            Cur::At(id) => {
                c.u8(2);
                c.u32(r.order.iter().position(|x| x == id).unwrap() as u32);
            }
        }
        fingerprint(&c.0)
    };
    let r0 = Ref { order: vec![], cur: Cur::None, next_id: 0, detached: vec![] };
    seen.insert(canon(&r0));
    let mut frontier: Vec<(Vec<DOp>, Ref)> = vec![(vec![], r0)];
    'levels: for d in 0..depth {
        let mut next = Vec::new();
        for (hist, r) in &frontier {
            for op in enabled(r, max_nodes) {
                if t0.elapsed().as_secs_f64() > wall_cap_s {
                    res.capped = true;
                    break 'levels;
                }
                let mut h = hist.clone();
                h.push(op);
                res.transitions += 1;
                let out = catch_unwind(AssertUnwindSafe(|| execute(&h)));
                let (r2, problems) = match out {
                    Ok(Ok(x)) => x,
                    Ok(Err(e)) => (r.clone(), vec![("deque:harness".to_string(), e)]),
                    Err(p) => (r.clone(), vec![(format!("deque:panic:{}", op.text().split('(').next().unwrap()), format!("{} panicked: {}", op.text(), panic_msg(&p)))]),
                };
                outcomes.insert(format!("{}:{}", op.text(), r2.order.len()));
                if !problems.is_empty() {
                    for (sig, detail) in problems {
                        res.viol_total += 1;
                        if sigs.insert(sig.clone()) {
                            res.violations.push(Violation { prop: "C08", sig: sig.clone(), detail: detail.clone(), witness: witness(&h) });
                            if sig.contains("live-elements") || sig.contains("leak") || sig.contains("double-drop") {
                                res.violations.push(Violation { prop: "C11", sig, detail, witness: witness(&h) });
                            }
                        }
                    }
                    continue;
                }
                if seen.insert(canon(&r2)) {
                    res.states += 1;
                    if res.samples.len() < 3 && d == 4 {
                        res.samples.push(witness(&h));
                    }
                    next.push((h, r2));
                }
            }
        }
        res.depth_done = d + 1;
        frontier = next;
        if frontier.is_empty() {
            res.fixpoint = true;
            break;
        }
    }
    if res.samples.is_empty() {
        res.samples.push(witness(&[DOp::PushBack, DOp::CursorNext, DOp::PopFront]));
    }
    res.outcomes = outcomes.len();
    res.wall_s = t0.elapsed().as_secs_f64();
    res
}

pub fn replay(w: &str) -> Vec<Violation> {
    let parts: Vec<&str> = w.split('|').collect();
    let ops: Vec<DOp> = parts[2].split_whitespace().map(DOp::parse).collect();
    let mut all = vec![];
    for n in 1..=ops.len() {
        match catch_unwind(AssertUnwindSafe(|| execute(&ops[..n]))) {
            Ok(Ok((r, problems))) => {
                println!("  #{} {:<22} -> order {:?} cursor {:?}", n - 1, ops[n - 1].text(), r.order, r.cur);
                for (sig, d) in problems {
                    println!("      VIOLATED C08 [{sig}]: {d}");
                    all.push(Violation { prop: "C08", sig, detail: d, witness: w.to_string() });
                }
            }
            Ok(Err(e)) => println!("harness error {e}"),
            Err(p) => {
                println!("      VIOLATED C08: panic {}", panic_msg(&p));
                all.push(Violation { prop: "C08", sig: "deque:panic".into(), detail: panic_msg(&p), witness: w.to_string() });
            }
        }
        if !all.is_empty() {
            break;
        }
    }
    all
}
