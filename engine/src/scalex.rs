//! E1c `scalex`: a small enumerated family of *scale* scenarios on the real caches with
//! u32 keys (the search engines use a one-byte key universe): more evictions than one
//! eviction batch, more consecutive invalidations than the write log holds, tens of
//! thousands of maximum-weight entries. Each scenario is a fixed history; what is checked
//! after it are the same physical clauses as everywhere else (capacity, counters, no
//! panic, the call returns). Enumeration of a parametric family, not sampling.

use crate::common::*;
use std::hash::BuildHasherDefault;
use std::time::{Duration, Instant};

type H = BuildHasherDefault<std::collections::hash_map::DefaultHasher>;
type SC = mini_moka::sync::Cache<u32, u32, H>;
type UC = mini_moka::unsync::Cache<u32, u32, H>;

fn sc(cap: u64, weigher: bool) -> SC {
    let b = mini_moka::sync::Cache::builder().max_capacity(cap);
    if weigher {
        b.weigher(|_k: &u32, v: &u32| *v).build_with_hasher(H::default())
    } else {
        b.build_with_hasher(H::default())
    }
}

fn uc(cap: u64, weigher: bool) -> UC {
    let b = mini_moka::unsync::Cache::builder().max_capacity(cap);
    if weigher {
        b.weigher(|_k: &u32, v: &u32| *v).build_with_hasher(H::default())
    } else {
        b.build_with_hasher(H::default())
    }
}

/// Runs `f` on a helper thread; None if it has not returned after `secs` seconds (the
/// thread is abandoned: the process exits at the end of the command anyway).
fn with_deadline<T: Send + 'static>(secs: u64, f: impl FnOnce() -> T + Send + 'static) -> Option<std::thread::Result<T>> {
    let (tx, rx) = std::sync::mpsc::channel();
    std::thread::spawn(move || {
        solo_install();
        let r = std::panic::catch_unwind(std::panic::AssertUnwindSafe(f));
        let _ = tx.send(r);
    });
    rx.recv_timeout(Duration::from_secs(secs)).ok()
}

pub struct Scenario {
    pub name: &'static str,
    pub steps: u64,
    pub viol: Vec<Violation>,
}

fn v(prop: &'static str, sig: &str, detail: String, name: &str) -> Violation {
    Violation { prop, sig: sig.to_string(), detail, witness: format!("scalex|{name}") }
}

/// One update needs more evictions than one eviction batch (500 sync / 100 unsync): the
/// excess that the first maintenance run leaves must be removed by the following ones.
fn bigexcess(kind: char, regime_beyond: bool) -> Scenario {
    use mini_moka::sync::ConcurrentCacheExt;
    let name: &'static str = match (kind, regime_beyond) {
        ('S', true) => "bigexcess:S:beyond",
        ('S', false) => "bigexcess:S:within",
        _ => "bigexcess:U",
    };
    let n = 1000u32;
    let grow = 800u32;
    let mut viol = Vec::new();
    let r = with_deadline(60, move || -> (u64, u64, u64, u64) {
        if kind == 'S' {
            let c = sc(n as u64, true);
            let clock = c.verif_install_mock_clock();
            if regime_beyond {
                clock.advance(Duration::from_millis(1000));
            }
            for i in 0..n {
                c.insert(i, 1);
                if i % 50 == 49 {
                    c.sync();
                }
            }
            c.sync();
            c.insert(n - 1, grow);
            for _ in 0..6 {
                c.sync();
            }
            // (measured here: maintenance runs with nothing at all in the logs must have
            // removed the excess already - an idle cache does not stay above its capacity)
            let held_idle: u64 = c.iter().map(|e| *e.value() as u64).sum();
            // lookups are "following operations" too
            for i in 0..10 {
                let _ = c.get(&i);
            }
            c.sync();
            let held_before: u64 = held_idle.max(c.iter().map(|e| *e.value() as u64).sum());
            // ... and so is the insert of a new key while the excess may still be there
            c.insert(5000, 1);
            c.sync();
            c.sync();
            let held: u64 = c.iter().map(|e| *e.value() as u64).sum();
            (held.max(held_before), held, c.weighted_size(), c.entry_count())
        } else {
            let mut c = uc(n as u64, true);
            let _clock = c.verif_install_mock_clock();
            for i in 0..n {
                c.insert(i, 1);
            }
            // (a key that is looked up often and will be inserted with a weight above the
            // capacity further down)
            for _ in 0..6 {
                let _ = c.get(&7000);
            }
            c.insert(n - 1, grow);
            // the very next operation is the insert of a new key: one eviction batch
            // (100) has not removed the excess of 799 yet. First a popular newcomer heavier
            // than the whole cache (never retained), then an ordinary one.
            c.insert(7000, n + 1);
            let oversized_kept = c.iter().any(|(k, _)| *k == 7000);
            c.insert(6000, 1);
            for i in 0..12 {
                let _ = c.get(&i);
            }
            for i in 0..4 {
                c.insert(n - 2 - i, 1);
            }
            // ... and the insert of new keys while the excess may still be there
            for i in 0..4 {
                c.insert(5000 + i, 1);
            }
            let held: u64 = c.iter().map(|(_, v)| *v as u64).sum();
            // (an oversized entry that was retained even for one call counts as excess)
            (if oversized_kept { held.max(n as u64 + 1) } else { held }, held, c.weighted_size(), c.entry_count())
        }
    });
    match r {
        None => viol.push(v("C09", "scale:call-did-not-return", format!("{name}: the scenario did not finish within 60 s"), name)),
        Some(Err(p)) => viol.push(v("C08", "scale:panic", format!("{name}: {}", panic_msg(&p)), name)),
        Some(Ok((held, held_end, ws, ec))) => {
            if held > n as u64 {
                viol.push(v("C04", "scale:excess-of-a-grown-entry-never-removed", format!("{name}: one entry grew from 1 to {grow} in a full cache of {n}; after 6 further maintenance runs / 16 further operations the residents still weigh {held} > max_capacity {n} (weighted_size() {ws}, entry_count() {ec})"), name));
            }
            if held_end != ws {
                viol.push(v("C10", "scale:weighted_size!=held", format!("{name}: weighted_size() {ws} but the residents weigh {held_end}"), name));
            }
        }
    }
    Scenario { name, steps: n as u64 + 30, viol }
}

/// More consecutive invalidations than the write log has slots, nothing else in between.
fn invalidate_burst(regime_beyond: bool) -> Scenario {
    use mini_moka::sync::ConcurrentCacheExt;
    let name: &'static str = if regime_beyond { "invalidate-burst:beyond" } else { "invalidate-burst:within" };
    let n = 1000u32;
    let mut viol = Vec::new();
    let r = with_deadline(30, move || -> (u64, u64, usize) {
        let c = sc(10_000, false);
        let clock = c.verif_install_mock_clock();
        for i in 0..n {
            c.insert(i, i);
            if i % 50 == 49 {
                c.sync();
            }
        }
        c.sync();
        if regime_beyond {
            clock.advance(Duration::from_millis(1000));
        }
        for i in 0..n {
            c.invalidate(&i);
        }
        c.sync();
        c.sync();
        (c.entry_count(), c.weighted_size(), c.iter().count())
    });
    match r {
        None => viol.push(v("C09", "scale:call-did-not-return", format!("{name}: {n} consecutive invalidate() calls (no other call in between) did not finish within 30 s"), name)),
        Some(Err(p)) => viol.push(v("C08", "scale:panic", format!("{name}: {}", panic_msg(&p)), name)),
        Some(Ok((ec, ws, it))) => {
            if ec != 0 || ws != 0 || it != 0 {
                viol.push(v("C10", "scale:counters-after-invalidating-everything", format!("{name}: entry_count() {ec}, weighted_size() {ws}, {it} entries iterated after every key was invalidated and maintenance ran"), name));
            }
        }
    }
    Scenario { name, steps: 2 * n as u64, viol }
}

/// Tens of thousands of entries of the maximum weight: every sum and product of weights
/// and counts is far beyond 32 bits, and count x weight is beyond 64.
fn hugeweights(kind: char) -> Scenario {
    use mini_moka::sync::ConcurrentCacheExt;
    let name: &'static str = if kind == 'S' { "hugeweights:S" } else { "hugeweights:U" };
    let n = 70_000u32;
    let w = u32::MAX;
    // capacity: twice what is inserted, so that the popularity sketch is switched on when
    // the cache is about half full of 35 000 maximum-weight entries
    let cap = 2 * n as u64 * w as u64;
    let mut viol = Vec::new();
    let r = with_deadline(120, move || -> (u64, u64, u64, u64) {
        if kind == 'S' {
            let c = sc(cap, true);
            let _clock = c.verif_install_mock_clock();
            for i in 0..n {
                c.insert(i, w);
                if i % 200 == 199 {
                    c.sync();
                }
            }
            c.sync();
            let cnt = c.iter().count() as u64;
            (cnt, cnt * w as u64, c.weighted_size(), c.entry_count())
        } else {
            let mut c = uc(cap, true);
            let _clock = c.verif_install_mock_clock();
            for i in 0..n {
                c.insert(i, w);
            }
            let cnt = c.iter().count() as u64;
            (cnt, cnt * w as u64, c.weighted_size(), c.entry_count())
        }
    });
    match r {
        None => viol.push(v("C09", "scale:call-did-not-return", format!("{name}: did not finish within 120 s"), name)),
        Some(Err(p)) => viol.push(v("C08", "scale:panic", format!("{name}: inserting {n} entries of weight u32::MAX into a cache of capacity {cap} panicked: {}", panic_msg(&p)), name)),
        Some(Ok((cnt, held, ws, ec))) => {
            if cnt != n as u64 {
                viol.push(v("C03", "scale:fitting-entries-missing", format!("{name}: {n} entries of weight u32::MAX fit into capacity {cap}, but {cnt} are resident"), name));
            }
            if ws != held || ec != cnt {
                viol.push(v("C10", "scale:counters!=held", format!("{name}: entry_count() {ec} weighted_size() {ws} but {cnt} residents weighing {held}"), name));
            }
            if held > cap {
                viol.push(v("C04", "scale:resident-weight-above-capacity", format!("{name}: {held} > {cap}"), name));
            }
        }
    }
    Scenario { name, steps: n as u64, viol }
}

/// A weighted cache that keeps filling after its popularity sketch was sized (at half
/// full): lookups recorded before must still count when the cache is full, however many
/// entries it ends up holding. No aging step can happen (a handful of lookups).
fn sketchgrow(kind: char, regime_beyond: bool, cap: u32) -> Scenario {
    use mini_moka::sync::ConcurrentCacheExt;
    let name: &'static str = match (kind, regime_beyond, cap) {
        ('S', true, 1000) => "sketchgrow:S:beyond:1000",
        ('S', false, 1000) => "sketchgrow:S:within:1000",
        ('S', true, _) => "sketchgrow:S:beyond:3000",
        ('S', false, _) => "sketchgrow:S:within:3000",
        (_, _, 1000) => "sketchgrow:U:1000",
        _ => "sketchgrow:U:3000",
    };
    let hot = 900_000u32;
    let looks = 4u8;
    let mut viol = Vec::new();
    // (lowest estimate seen after the lookups, table lengths seen, hot admitted?, key 0 still there?, entry_count)
    let r = with_deadline(60, move || -> (u8, Vec<usize>, bool, bool, u64) {
        let mut lens: Vec<usize> = Vec::new();
        let mut low = u8::MAX;
        if kind == 'S' {
            let c = sc(cap as u64, true);
            let clock = c.verif_install_mock_clock();
            if regime_beyond {
                clock.advance(Duration::from_millis(1000));
            }
            for i in 0..cap / 2 {
                c.insert(i, 1);
            }
            c.sync();
            for _ in 0..looks {
                let _ = c.get(&hot);
            }
            c.sync();
            low = low.min(c.verif_estimate(&hot));
            lens.push(c.verif_snapshot(|k| *k as u64, |v| *v as u64).sketch.table_len);
            for i in cap / 2..cap {
                c.insert(i, 1);
                if i % 25 == 24 {
                    c.sync();
                    low = low.min(c.verif_estimate(&hot));
                    let l = c.verif_snapshot(|k| *k as u64, |v| *v as u64).sketch.table_len;
                    if lens.last() != Some(&l) {
                        lens.push(l);
                    }
                }
            }
            c.sync();
            low = low.min(c.verif_estimate(&hot));
            c.insert(hot, 1);
            c.sync();
            (low, lens, c.contains_key(&hot), c.contains_key(&0), c.entry_count())
        } else {
            let mut c = uc(cap as u64, true);
            let _clock = c.verif_install_mock_clock();
            for i in 0..cap / 2 {
                c.insert(i, 1);
            }
            for _ in 0..looks {
                let _ = c.get(&hot);
            }
            low = low.min(c.verif_estimate(&hot));
            lens.push(c.verif_snapshot(|k| *k as u64, |v| *v as u64).sketch.table_len);
            for i in cap / 2..cap {
                c.insert(i, 1);
                if i % 25 == 24 {
                    low = low.min(c.verif_estimate(&hot));
                    let l = c.verif_snapshot(|k| *k as u64, |v| *v as u64).sketch.table_len;
                    if lens.last() != Some(&l) {
                        lens.push(l);
                    }
                }
            }
            low = low.min(c.verif_estimate(&hot));
            c.insert(hot, 1);
            (low, lens, c.contains_key(&hot), c.contains_key(&0), c.entry_count())
        }
    });
    match r {
        None => viol.push(v("C09", "scale:call-did-not-return", format!("{name}: the scenario did not finish within 60 s"), name)),
        Some(Err(p)) => viol.push(v("C08", "scale:panic", format!("{name}: {}", panic_msg(&p)), name)),
        Some(Ok((low, lens, hot_in, zero_in, ec))) => {
            if low < looks {
                let d = format!("{name}: a key was looked up {looks} times when the weighted cache (capacity {cap}, unit weights) was half full; while the cache filled up its estimate dropped to {low} although no aging step is due (popularity table lengths seen: {lens:?})");
                viol.push(v("C14", "scale:estimate-dropped-without-aging", d.clone(), name));
                viol.push(v("C13", "scale:estimate-dropped-without-aging", d, name));
            }
            if lens.len() > 1 {
                viol.push(v("C14", "scale:sketch-reallocated", format!("{name}: the popularity table was allocated again after it had been sized and had recorded lookups: lengths {lens:?}"), name));
            }
            if !hot_in || zero_in {
                viol.push(v("C13", "scale:popular-newcomer-rejected", format!("{name}: full cache of never-read unit-weight entries; a newcomer that was looked up {looks} times must replace the least recently used resident (key 0): newcomer resident = {hot_in}, key 0 resident = {zero_in}, entry_count() = {ec}"), name));
            }
        }
    }
    Scenario { name, steps: cap as u64 + 10, viol }
}

/// The popularity history survives `invalidate_all()`: a weighted cache is half filled by
/// a few heavy entries (the popularity table is sized for them), a key is looked up five
/// times, everything is invalidated, and the cache fills up again with many light entries.
/// No aging step is due, so the key's estimate must not drop, and the key must win the
/// contest against the never-read least recently used resident.
fn sketchregrow(kind: char, regime_beyond: bool, weigher: bool) -> Scenario {
    use mini_moka::sync::ConcurrentCacheExt;
    let name: &'static str = match (kind, regime_beyond, weigher) {
        ('S', true, true) => "sketchregrow:S:beyond",
        ('S', false, true) => "sketchregrow:S:within",
        (_, _, true) => "sketchregrow:U",
        ('S', true, false) => "sketchregrow:S:beyond:unweighted",
        ('S', false, false) => "sketchregrow:S:within:unweighted",
        _ => "sketchregrow:U:unweighted",
    };
    // a second key, looked up only AFTER invalidate_all() (while the cache is empty)
    let hot2 = 900_001u32;
    // the first population: five heavy entries, or (without a weigher) 500 unit entries
    let first: Vec<(u32, u32)> = if weigher { (0..5).map(|i| (i, 100)).collect() } else { (2000..2500).map(|i| (i, 1)).collect() };
    let hot = 900_000u32;
    let looks = 5u8;
    let cap = 1000u32;
    let mut viol = Vec::new();
    // (lowest estimate seen after the lookups, hot admitted?, first light key still there?, entry_count, hot2 admitted?)
    let r = with_deadline(60, move || -> (u8, bool, bool, u64, bool) {
        let mut low = u8::MAX;
        if kind == 'S' {
            let c = sc(cap as u64, weigher);
            let clock = c.verif_install_mock_clock();
            if regime_beyond {
                clock.advance(Duration::from_millis(1000));
            }
            for (k, w) in &first {
                c.insert(*k, *w);
            }
            c.sync();
            for _ in 0..looks {
                let _ = c.get(&hot);
            }
            c.sync();
            low = low.min(c.verif_estimate(&hot));
            clock.advance(Duration::from_millis(1000));
            c.invalidate_all();
            c.sync();
            low = low.min(c.verif_estimate(&hot));
            for _ in 0..looks {
                let _ = c.get(&hot2);
            }
            c.sync();
            for i in 10..10 + cap {
                c.insert(i, 1);
                if i % 25 == 24 {
                    c.sync();
                    low = low.min(c.verif_estimate(&hot));
                }
            }
            c.sync();
            low = low.min(c.verif_estimate(&hot));
            c.insert(hot, 1);
            c.sync();
            let (hot_in, first_in) = (c.contains_key(&hot), c.contains_key(&10));
            c.insert(hot2, 1);
            c.sync();
            (low, hot_in, first_in, c.entry_count(), c.contains_key(&hot2))
        } else {
            let mut c = uc(cap as u64, weigher);
            let _clock = c.verif_install_mock_clock();
            for (k, w) in &first {
                c.insert(*k, *w);
            }
            for _ in 0..looks {
                let _ = c.get(&hot);
            }
            low = low.min(c.verif_estimate(&hot));
            c.invalidate_all();
            low = low.min(c.verif_estimate(&hot));
            for _ in 0..looks {
                let _ = c.get(&hot2);
            }
            for i in 10..10 + cap {
                c.insert(i, 1);
                if i % 25 == 24 {
                    low = low.min(c.verif_estimate(&hot));
                }
            }
            low = low.min(c.verif_estimate(&hot));
            c.insert(hot, 1);
            let (hot_in, first_in) = (c.contains_key(&hot), c.contains_key(&10));
            c.insert(hot2, 1);
            (low, hot_in, first_in, c.entry_count(), c.contains_key(&hot2))
        }
    });
    match r {
        None => viol.push(v("C09", "scale:call-did-not-return", format!("{name}: the scenario did not finish within 60 s"), name)),
        Some(Err(p)) => viol.push(v("C08", "scale:panic", format!("{name}: {}", panic_msg(&p)), name)),
        Some(Ok((low, hot_in, first_in, ec, hot2_in))) => {
            if !hot2_in {
                viol.push(v("C13", "scale:popular-newcomer-rejected:lookups-after-invalidate_all", format!("{name}: a key was looked up {looks} times right after invalidate_all() (the cache had been half full before and was empty then); when the cache is full of never-read unit-weight entries its insert must displace a resident, but it was rejected (entry_count() = {ec})"), name));
            }
            if low < looks {
                let d = format!("{name}: a key was looked up {looks} times in a cache (capacity {cap}) that was half full; after invalidate_all() and while the cache filled up with unit-weight entries its estimate dropped to {low} although no aging step is due");
                viol.push(v("C14", "scale:estimate-dropped-without-aging", d.clone(), name));
                viol.push(v("C13", "scale:estimate-dropped-without-aging", d, name));
            }
            if !hot_in || first_in {
                viol.push(v("C13", "scale:popular-newcomer-rejected", format!("{name}: full cache of never-read unit-weight entries; a newcomer that was looked up {looks} times (before an invalidate_all()) must replace the least recently used resident (key 10): newcomer resident = {hot_in}, key 10 resident = {first_in}, entry_count() = {ec}"), name));
            }
        }
    }
    Scenario { name, steps: cap as u64 + 20, viol }
}

pub fn scenarios(filter: &str) -> Vec<Scenario> {
    let mut out = Vec::new();
    let want = |n: &str| filter.is_empty() || n.starts_with(filter) || filter == "all";
    if want("bigexcess") {
        out.push(bigexcess('S', true));
        out.push(bigexcess('S', false));
        out.push(bigexcess('U', true));
    }
    if want("invalidate-burst") {
        out.push(invalidate_burst(true));
        out.push(invalidate_burst(false));
    }
    if want("sketchgrow") {
        for cap in [1000u32, 3000] {
            out.push(sketchgrow('S', true, cap));
            out.push(sketchgrow('S', false, cap));
            out.push(sketchgrow('U', true, cap));
        }
    }
    if want("sketchregrow") {
        for w in [true, false] {
            out.push(sketchregrow('S', true, w));
            out.push(sketchregrow('S', false, w));
            out.push(sketchregrow('U', true, w));
        }
    }
    if want("hugeweights") {
        out.push(hugeweights('S'));
        out.push(hugeweights('U'));
    }
    // key / value types other than the search engines' own (typex.rs)
    if filter.starts_with("typeslong") {
        out.extend(crate::typex::scenarios_longlife().into_iter().filter(|s| s.name.starts_with(filter)));
    } else if filter.starts_with("types1cpu") {
        out.extend(crate::typex::scenarios_1cpu().into_iter().filter(|s| s.name.starts_with(filter)));
    } else if filter.starts_with("types") {
        out.extend(crate::typex::scenarios().into_iter().filter(|s| s.name.starts_with(filter)));
    }
    out
}

pub fn run(filter: &str) -> String {
    let t0 = Instant::now();
    mini_moka::verif::set_shard_amount(4);
    let sc = scenarios(filter);
    let mut viols: Vec<Violation> = Vec::new();
    let mut steps = 0;
    let mut names = Vec::new();
    for s in sc {
        steps += s.steps;
        names.push(format!("scalex|{}", s.name));
        viols.extend(s.viol);
    }
    format!(
        "{{\"engine\":\"scalex\",\"spec\":{},\"states\":{},\"transitions\":{steps},\"depth_done\":1,\"capped\":false,\"outcomes\":{},\"viol_total\":{},\"violations\":{},\"samples\":{},\"wall_s\":{:.3}}}",
        jstr(&format!("scale scenarios {filter}")),
        names.len(),
        names.len(),
        viols.len(),
        jlist(&viols.iter().map(|v| v.to_json()).collect::<Vec<_>>()),
        jlist(&names.iter().take(3).map(|s| jstr(s)).collect::<Vec<_>>()),
        t0.elapsed().as_secs_f64()
    )
}

pub fn replay(w: &str) -> Vec<Violation> {
    mini_moka::verif::set_shard_amount(4);
    let name = w.split('|').nth(1).unwrap_or("");
    let fam = name.split(':').next().unwrap_or("");
    let mut out = Vec::new();
    for s in scenarios(fam) {
        if s.name == name {
            println!("scenario {}: {} steps", s.name, s.steps);
            for v in s.viol {
                println!("      VIOLATED {} [{}]: {}", v.prop, v.sig, v.detail);
                out.push(v);
            }
        }
    }
    out
}
