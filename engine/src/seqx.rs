//! E1: explicit-state breadth-first search over operation histories of the REAL
//! caches. A state is the real cache reached by a history; successors are computed
//! by building a fresh cache, replaying the history and executing one more op.
//! Deduplication is on the exact canonical form of the implementation state (plus
//! the reference model's state).

use crate::common::*;
use crate::model::*;
use crate::sut::*;
use std::collections::HashSet;
use std::time::Instant;

pub struct Node {
    pub hist: Vec<u8>,
    pub model: Model,
    pub fp: u128,
    /// a known finding lies on the path to this state: only the clauses that cannot be
    /// its consequence are still evaluated below it
    pub taint: bool,
}

pub struct JobResult {
    pub spec: String,
    pub states: u64,
    pub transitions: u64,
    pub skipped_q: u64,
    pub pruned_violating: u64,
    pub depth_done: usize,
    pub capped: bool,
    pub outcomes: usize,
    pub pure_checks: u64,
    pub replays: u64,
    pub violations: Vec<Violation>,
    pub viol_total: u64,
    pub samples: Vec<String>,
    pub wall_s: f64,
    pub level_sizes: Vec<usize>,
}

impl JobResult {
    pub fn to_json(&self) -> String {
        format!(
            "{{\"engine\":\"seqx\",\"spec\":{},\"states\":{},\"transitions\":{},\"skipped_q\":{},\"pruned_violating\":{},\"depth_done\":{},\"capped\":{},\"outcomes\":{},\"pure_checks\":{},\"replays\":{},\"viol_total\":{},\"violations\":{},\"samples\":{},\"level_sizes\":{:?},\"wall_s\":{:.3}}}",
            jstr(&self.spec),
            self.states,
            self.transitions,
            self.skipped_q,
            self.pruned_violating,
            self.depth_done,
            self.capped,
            self.outcomes,
            self.pure_checks,
            self.replays,
            self.viol_total,
            jlist(&self.violations.iter().map(|v| v.to_json()).collect::<Vec<_>>()),
            jlist(&self.samples.iter().map(|s| jstr(s)).collect::<Vec<_>>()),
            self.level_sizes,
            self.wall_s
        )
    }
}

pub fn witness(cfg: &Cfg, ops: &[Op]) -> String {
    format!("seqx|{}|{}", cfg.spec(), ops_text(ops))
}

/// Builds a fresh cache and replays `ops` on it without oracles.
/// Returns the cache and the next value id.
fn rebuild(cfg: &Cfg, hasher: &TableHasher, ops: &[Op]) -> (Sut, u32) {
    tracker().reset();
    let mut sut = Sut::new(cfg, *hasher);
    let mut vid = 1;
    let pre = cfg.pre_ops();
    for op in pre.iter().chain(ops.iter()) {
        sut.apply(cfg, *op, vid);
        if op.takes_vid() {
            vid += 1;
        }
    }
    (sut, vid)
}

/// Crash journal: the history about to be executed is written into a shared file
/// mapping (no system call per transition); if the process dies the file still
/// holds the last history.
pub struct Journal {
    ptr: *mut u8,
    len: usize,
    _file: Option<std::fs::File>,
}

extern "C" {
    fn mmap(addr: *mut std::ffi::c_void, len: usize, prot: i32, flags: i32, fd: i32, off: i64) -> *mut std::ffi::c_void;
}

impl Journal {
    pub fn open(path: &Option<String>) -> Journal {
        use std::os::unix::io::AsRawFd;
        const LEN: usize = 8192;
        if let Some(p) = path {
            if let Ok(f) = std::fs::OpenOptions::new().read(true).write(true).create(true).truncate(true).open(p) {
                if f.set_len(LEN as u64).is_ok() {
                    let ptr = unsafe { mmap(std::ptr::null_mut(), LEN, 3, 1, f.as_raw_fd(), 0) };
                    if ptr as isize != -1 && !ptr.is_null() {
                        return Journal { ptr: ptr as *mut u8, len: LEN, _file: Some(f) };
                    }
                }
            }
        }
        Journal { ptr: std::ptr::null_mut(), len: 0, _file: None }
    }
    pub fn write(&self, text: &str) {
        if self.ptr.is_null() {
            return;
        }
        let b = text.as_bytes();
        let n = b.len().min(self.len - 1);
        unsafe {
            std::ptr::copy_nonoverlapping(b.as_ptr(), self.ptr, n);
            *self.ptr.add(n) = b'\n';
            if n + 1 < self.len {
                std::ptr::write_bytes(self.ptr.add(n + 1), 0, (self.len - n - 1).min(256));
            }
        }
    }
}

/// Which violations stop the expansion of a state: those of the property under
/// check, known findings of any property (their consequences would be reported
/// again and again under other names), and anything that means the cache's memory
/// can no longer be trusted. Violations of other properties are recorded but the
/// search goes on through them, so that they cannot mask the property under check.
pub struct Prune {
    pub prop: String,
    pub known: Vec<(String, String)>,
}

impl Prune {
    pub fn from_env() -> Prune {
        let prop = std::env::var("MMVERIF_PROP").unwrap_or_default();
        let known = std::env::var("MMVERIF_KNOWN")
            .unwrap_or_default()
            .split(';')
            .filter_map(|kv| kv.split_once('=').map(|(a, b)| (a.to_string(), b.to_string())))
            .collect();
        Prune { prop, known }
    }
    pub fn is_known(&self, v: &Violation) -> bool {
        self.known.iter().any(|(p, pat)| {
            p == v.prop
                && match pat.strip_suffix('*') {
                    Some(pre) => v.sig.starts_with(pre),
                    None => *pat == v.sig,
                }
        })
    }
    pub fn stops(&self, v: &Violation) -> bool {
        // structural damage after which executing further calls on this cache would
        // run on memory that cannot be trusted (a leaked node alone is not that)
        // Under AddressSanitizer the point is to run INTO the dereference, so only a
        // panic stops the expansion there.
        let asan = std::env::var("MMVERIF_ASAN").is_ok();
        let marks: &[&str] = if asan { &["panic"] } else { &["dangling", "malformed", "panic", "drop-protocol", "wrong-deque", "mismatch"] };
        let unsafe_to_continue = v.prop == "C08" && marks.iter().any(|s| v.sig.contains(s));
        if asan && v.prop == "C08" {
            return unsafe_to_continue;
        }
        self.prop.is_empty() || (v.prop == self.prop && !self.is_known(v)) || unsafe_to_continue
    }
    /// Below a known finding (an entry maintenance failed to purge: still linked, still
    /// counted, still occupying room) the clauses about counters, release, room and
    /// recency order would only restate it. What must hold regardless: no lookup ever
    /// shows a dead entry, the structures stay well formed, calls return, lookups stay pure.
    pub fn independent_of_known(v: &Violation) -> bool {
        const UPPER: [&str; 6] = ["stale-value", "phantom", "visible-after", "visible-past", "iter-yields-dead-entry", "iter-duplicate-key"];
        matches!(v.prop, "C08" | "C09" | "C15") || UPPER.iter().any(|s| v.sig.contains(s))
    }
}

pub fn run_job(cfg: &Cfg, journal_path: Option<String>, wall_cap_s: f64) -> JobResult {
    let prune = Prune::from_env();
    let t0 = Instant::now();
    let journal = Journal::open(&journal_path);
    let hasher = make_hasher(cfg.hash);
    let alpha = alphabet(cfg);
    let mut res = JobResult {
        spec: cfg.spec(),
        states: 0,
        transitions: 0,
        skipped_q: 0,
        pruned_violating: 0,
        depth_done: 0,
        capped: false,
        outcomes: 0,
        pure_checks: 0,
        replays: 0,
        violations: Vec::new(),
        viol_total: 0,
        samples: Vec::new(),
        wall_s: 0.0,
        level_sizes: Vec::new(),
    };
    let mut seen: HashSet<u128> = HashSet::new();
    let mut outcomes: HashSet<u64> = HashSet::new();
    let mut sig_seen: HashSet<(String, String)> = HashSet::new();

    // initial state (after the prefix, which is run through the oracles once)
    let mut m0 = Model::new(cfg);
    {
        tracker().reset();
        let mut sut = Sut::new(cfg, hasher);
        for op in cfg.pre_ops() {
            let pre = sut.snapshot();
            let out = step(cfg, &mut sut, &mut m0, &pre, op, &hasher);
            for mut vv in out.viol {
                res.viol_total += 1;
                if sig_seen.insert((vv.prop.to_string(), vv.sig.clone())) {
                    vv.witness = witness(cfg, &[]);
                    res.violations.push(vv);
                }
            }
            if out.dead {
                std::mem::forget(sut);
                res.wall_s = t0.elapsed().as_secs_f64();
                res.samples.push(witness(cfg, &[]));
                return res;
            }
        }
    }
    let (sut0, _) = rebuild(cfg, &hasher, &[]);
    let s0 = sut0.snapshot();
    let fp0 = state_fp(cfg, &s0, sut0.clock().now(), &m0);
    drop(sut0);
    seen.insert(fp0);
    res.states = 1;
    let mut frontier = vec![Node { hist: vec![], model: m0, fp: fp0, taint: false }];
    res.level_sizes.push(1);

    'levels: for depth in 0..cfg.d {
        let mut next: Vec<Node> = Vec::new();
        for node in &frontier {
            let hist_ops: Vec<Op> = node.hist.iter().map(|i| alpha[*i as usize]).collect();
            let mut first = true;
            for (oi, op) in alpha.iter().enumerate() {
                if let Op::Adv(_) | Op::IterAdv(_) = op {
                    if node.model.advances as usize >= cfg.a {
                        continue;
                    }
                }
                if t0.elapsed().as_secs_f64() > wall_cap_s || res.states as usize >= cfg.max_states {
                    res.capped = true;
                    break 'levels;
                }
                let mut full = hist_ops.clone();
                full.push(*op);
                journal.write(&witness(cfg, &full));

                let (mut sut, _vid) = rebuild(cfg, &hasher, &hist_ops);
                res.replays += 1;
                let pre = sut.snapshot();
                if first {
                    // a divergence while replaying a prefix is a hard error
                    let fp = state_fp(cfg, &pre, sut.clock().now(), &node.model);
                    if fp != node.fp {
                        eprintln!("MACHINERY: replay of {} diverged from the state recorded for it", witness(cfg, &hist_ops));
                        std::process::exit(2);
                    }
                    first = false;
                }
                let mut model = node.model.clone();
                let out = step(cfg, &mut sut, &mut model, &pre, *op, &hasher);
                if !out.dead && out.pending > cfg.q {
                    res.skipped_q += 1;
                    continue;
                }
                res.transitions += 1;
                {
                    use std::hash::{Hash, Hasher};
                    let mut h = std::collections::hash_map::DefaultHasher::new();
                    out.obs.hash(&mut h);
                    op.hash(&mut h);
                    outcomes.insert(h.finish());
                }
                let mut viols = out.viol;
                let now = sut.clock().now();
                let dead = out.dead;
                let post = out.post;
                // drop the cache with whatever is still queued: everything must be released
                let dropped = std::panic::catch_unwind(std::panic::AssertUnwindSafe(move || drop(sut)));
                if let Err(p) = dropped {
                    viols.push(Violation { prop: "C08", sig: format!("{}:panic:drop", if cfg.kind == Kind::U { "U" } else { "S" }), detail: format!("dropping the cache panicked: {}", panic_msg(&p)), witness: String::new() });
                } else if !dead {
                    let (lk, lv) = tracker().live();
                    if lk != 0 || lv != 0 {
                        viols.push(Violation {
                            prop: "C11",
                            sig: format!("{}:leak-after-drop", if cfg.kind == Kind::U { "U" } else { "S" }),
                            detail: format!("after dropping the cache {lk} keys and {lv} values are still alive"),
                            witness: String::new(),
                        });
                    }
                    for p in tracker().take_problems() {
                        viols.push(Violation { prop: "C11", sig: "drop-protocol:drop".into(), detail: p.clone(), witness: String::new() });
                        viols.push(Violation { prop: "C08", sig: "drop-protocol:drop".into(), detail: p, witness: String::new() });
                    }
                }
                if node.taint {
                    viols.retain(Prune::independent_of_known);
                }
                let taint = node.taint || viols.iter().any(|vv| prune.is_known(vv));
                if !viols.is_empty() {
                    let stop = dead || viols.iter().any(|vv| prune.stops(vv));
                    for mut vv in viols {
                        res.viol_total += 1;
                        // keep the first (shortest, BFS) witness per (property, signature)
                        if sig_seen.insert((vv.prop.to_string(), vv.sig.clone())) && res.violations.len() < 200 {
                            vv.witness = witness(cfg, &full);
                            res.violations.push(vv);
                        }
                    }
                    if stop {
                        res.pruned_violating += 1;
                        continue;
                    }
                }
                let post = post.unwrap();
                let fp = state_fp(cfg, &post, now, &model);
                // (a state reached below a known finding is kept apart from the same
                // state reached without one: fewer clauses are evaluated below it)
                if !seen.insert(if taint { fp ^ 0x5a5a_5a5a_5a5a_5a5a_5a5a_5a5a_5a5a_5a5a } else { fp }) {
                    continue;
                }
                res.states += 1;
                if res.samples.len() < 3 && depth + 1 == cfg.d.min(4) {
                    res.samples.push(witness(cfg, &full));
                }
                // C15: contains_key / iter leave the state untouched
                if cfg.pure_check {
                    purity(cfg, &hasher, &full, &post, now, &mut res, &mut sig_seen);
                }
                let mut h = node.hist.clone();
                h.push(oi as u8);
                next.push(Node { hist: h, model, fp, taint });
            }
        }
        res.depth_done = depth + 1;
        res.level_sizes.push(next.len());
        frontier = next;
        if frontier.is_empty() {
            break;
        }
    }
    res.outcomes = outcomes.len();
    if res.samples.is_empty() {
        if let Some(n) = frontier.first() {
            let ops: Vec<Op> = n.hist.iter().map(|i| alpha[*i as usize]).collect();
            res.samples.push(witness(cfg, &ops));
        } else {
            res.samples.push(witness(cfg, &[]));
        }
    }
    res.wall_s = t0.elapsed().as_secs_f64();
    journal.write("done");
    res
}

/// C15 at one state `s` (reached by `hist`): for every pure call p,
/// canon(s . p) == canon(s). On U, contains_key also performs the maintenance
/// that any next call would perform first (expiry purge, removal of the excess
/// left by a growing update), so both sides are compared after one identical
/// maintenance-forcing call F = invalidate(absent key).
fn purity(
    cfg: &Cfg,
    hasher: &TableHasher,
    hist: &[Op],
    post: &mini_moka::verif::Snapshot,
    now: Instant,
    res: &mut JobResult,
    sig_seen: &mut HashSet<(String, String)>,
) {
    let u = cfg.kind == Kind::U;
    let absent = cfg.nkeys; // never inserted by any alphabet
    let base_direct = impl_fp(post, now);
    let base_forced: u128 = if u {
        let (mut s2, vid) = rebuild(cfg, hasher, hist);
        res.replays += 1;
        s2.apply(cfg, Op::Inv(absent), vid);
        impl_fp(&s2.snapshot(), s2.clock().now())
    } else {
        0
    };
    let mut calls: Vec<Op> = (0..cfg.nkeys).map(Op::Con).collect();
    calls.push(Op::Iter);
    let kdn = if u { "U" } else { "S" };
    for p in calls {
        res.pure_checks += 1;
        let forced = u && matches!(p, Op::Con(_));
        let (mut sut, vid) = rebuild(cfg, hasher, hist);
        res.replays += 1;
        let r = std::panic::catch_unwind(std::panic::AssertUnwindSafe(|| {
            sut.apply(cfg, p, vid);
            if forced {
                sut.apply(cfg, Op::Inv(absent), vid);
            }
            impl_fp(&sut.snapshot(), sut.clock().now())
        }));
        let got = match r {
            Ok(f) => f,
            Err(_) => continue, // panics are reported by the main search
        };
        let want = if forced { base_forced } else { base_direct };
        if got != want {
            res.viol_total += 1;
            let sig = format!("{kdn}:impure:{}", p.kind());
            if sig_seen.insert(("C15".into(), sig.clone())) {
                let mut w = hist.to_vec();
                w.push(p);
                res.violations.push(Violation {
                    prop: "C15",
                    sig,
                    detail: format!(
                        "{} changed the internal state (canonical form differs{})",
                        p.text(),
                        if forced { " even after the maintenance both runs have due" } else { "" }
                    ),
                    witness: witness(cfg, &w),
                });
            }
        }
    }
}

/// Replays one witness with all oracles and prints what happens: the unit-test
/// form of a counterexample.
pub fn replay(w: &str) -> Vec<Violation> {
    let parts: Vec<&str> = w.split('|').collect();
    assert!(parts.len() == 3 && parts[0] == "seqx", "not a seqx witness: {w}");
    let cfg = Cfg::parse(parts[1]);
    let mut ops = cfg.pre_ops();
    let npre = ops.len();
    ops.extend(parse_ops(parts[2]));
    let hasher = make_hasher(cfg.hash);
    tracker().reset();
    let mut sut = Sut::new(&cfg, hasher);
    let mut model = Model::new(&cfg);
    let mut all = Vec::new();
    println!("config: {} ({npre} prefix operations)", cfg.spec());
    for (i, op) in ops.iter().enumerate() {
        let pre = sut.snapshot();
        let out = step(&cfg, &mut sut, &mut model, &pre, *op, &hasher);
        let (ec, ws) = if out.dead { (0, 0) } else { sut.counters() };
        println!(
            "  #{i:<2} {:<14} -> {:?}   [entry_count={ec} weighted_size={ws} pending={} map={:?}]",
            op.text(),
            out.obs,
            out.pending,
            out.post.as_ref().map(|p| p.entries.iter().map(|e| (e.key, e.value, e.weight)).collect::<Vec<_>>())
        );
        for vv in &out.viol {
            println!("      VIOLATED {} [{}]: {}", vv.prop, vv.sig, vv.detail);
        }
        let dead = out.dead;
        all.extend(out.viol);
        if dead {
            std::mem::forget(sut);
            return all;
        }
    }
    drop(sut);
    if cfg.pure_check && matches!(ops.last(), Some(Op::Con(_)) | Some(Op::Iter)) {
        // C15: the last call is the pure call under test; compare with the run without it
        let base = &ops[npre..ops.len() - 1];
        let p = *ops.last().unwrap();
        let u = cfg.kind == Kind::U;
        let forced = u && matches!(p, Op::Con(_));
        let run = |with: bool| -> u128 {
            let (mut s2, vid) = rebuild(&cfg, &hasher, base);
            if with {
                s2.apply(&cfg, p, vid);
            }
            if forced {
                s2.apply(&cfg, Op::Inv(cfg.nkeys), vid);
            }
            impl_fp(&s2.snapshot(), s2.clock().now())
        };
        if run(true) != run(false) {
            let sig = format!("{}:impure:{}", if u { "U" } else { "S" }, p.kind());
            println!("      VIOLATED C15 [{sig}]: {} changed the internal state", p.text());
            all.push(Violation { prop: "C15", sig, detail: format!("{} changed the internal state", p.text()), witness: String::new() });
        }
        tracker().reset();
    }
    let (lk, lv) = tracker().live();
    if lk != 0 || lv != 0 {
        let sig = format!("{}:leak-after-drop", if cfg.kind == Kind::U { "U" } else { "S" });
        println!("      VIOLATED C11 [{sig}]: {lk} keys, {lv} values alive after drop");
        all.push(Violation { prop: "C11", sig, detail: format!("{lk} keys and {lv} values alive after drop"), witness: String::new() });
    }
    all
}

/// C04 overshoot clause, decided on a parametric family (the constant 384 is far
/// beyond any exhaustive history depth): N inserts without sync() on the sync
/// cache, for every N x key pattern x housekeeping regime x capacity of the family;
/// after each insert the number of entries iteration yields is at most
/// capacity + write queue size + 1, and after maintenance the resident weight is
/// within capacity again.
pub fn overshoot() -> String {
    use mini_moka::sync::ConcurrentCacheExt;
    use std::hash::BuildHasherDefault;
    type H = BuildHasherDefault<std::collections::hash_map::DefaultHasher>;
    let t0 = Instant::now();
    let mut states = 0u64;
    let mut transitions = 0u64;
    let mut viols: Vec<Violation> = Vec::new();
    let mut sigs: HashSet<String> = HashSet::new();
    let mut samples = Vec::new();
    let mut max_seen = 0usize;
    mini_moka::verif::set_shard_amount(4);
    // (sizes around the library's own flush point and write-log size: 63, 64, 65, 383, 384,
    // 385, 449 on the unchanged code)
    let k = mini_moka::verif::constants();
    let (fp, wl) = (k.write_log_flush_point, k.write_log_size);
    let mut sizes = vec![fp - 1, fp, fp + 1, wl - 1, wl, wl + 1, wl + fp + 1, (wl + fp + 1).max(800), (wl + fp + 1).max(2000)];
    sizes.dedup();
    for n in sizes {
        for keys in [1usize, 2, usize::MAX] {
            for beyond in [true, false] {
                for cap in [0u64, 1, 10] {
                    states += 1;
                    let w = format!("overshoot|N={n},keys={},beyond={},cap={cap}", if keys == usize::MAX { "distinct".to_string() } else { keys.to_string() }, beyond as u8);
                    if samples.len() < 3 {
                        samples.push(w.clone());
                    }
                    let r = std::panic::catch_unwind(std::panic::AssertUnwindSafe(|| {
                        let c: mini_moka::sync::Cache<u32, u32, H> = mini_moka::sync::Cache::builder().max_capacity(cap).build_with_hasher(H::default());
                        let clock = c.verif_install_mock_clock();
                        if beyond {
                            clock.advance(std::time::Duration::from_millis(1000));
                        }
                        let mut worst = 0usize;
                        for i in 0..n {
                            c.insert((i % keys.max(1)) as u32, i as u32);
                            // iterating every time would make the family quadratic; the bound
                            // can only be exceeded where the visible count peaks
                            if i % 16 == 15 || i + 1 == n || (wl.saturating_sub(4)..=wl + 16).contains(&i) {
                                worst = worst.max(c.iter().count());
                            }
                        }
                        c.sync();
                        c.sync();
                        (worst, c.iter().count() as u64, c.entry_count(), c.verif_queue_caps().1)
                    }));
                    transitions += n as u64;
                    match r {
                        Ok((worst, total, ec, wcap)) => {
                            max_seen = max_seen.max(worst);
                            // "overshoots by no more than its bounded write queue plus one
                            // entry per inserting thread"
                            let bound = wcap.map(|b| cap + b as u64 + 1);
                            if bound.map(|b| worst as u64 > b).unwrap_or(true) && sigs.insert("overshoot".into()) {
                                viols.push(Violation { prop: "C04", sig: "S:overshoot-beyond-write-queue".into(), detail: format!("{worst} entries visible with max_capacity {cap}: more than capacity + the capacity of the write log ({wcap:?}) + 1"), witness: w.clone() });
                            }
                            if total > cap && sigs.insert("after".into()) {
                                viols.push(Violation { prop: "C04", sig: "S:resident-weight-above-capacity:after-burst".into(), detail: format!("after the burst and sync(): {total} unit-weight residents (entry_count {ec}) > max_capacity {cap}"), witness: w.clone() });
                            }
                        }
                        Err(p) => {
                            if sigs.insert("panic".into()) {
                                viols.push(Violation { prop: "C08", sig: "S:panic:burst".into(), detail: panic_msg(&p), witness: w.clone() });
                            }
                        }
                    }
                }
            }
        }
    }
    format!(
        "{{\"engine\":\"overshoot\",\"spec\":\"N in 63..2000 x keys 1,2,distinct x regime x cap 0,1,10\",\"states\":{states},\"transitions\":{transitions},\"depth_done\":2000,\"capped\":false,\"outcomes\":{max_seen},\"viol_total\":{},\"violations\":{},\"samples\":{},\"wall_s\":{:.3}}}",
        viols.len(),
        jlist(&viols.iter().map(|v| v.to_json()).collect::<Vec<_>>()),
        jlist(&samples.iter().map(|s| jstr(s)).collect::<Vec<_>>()),
        t0.elapsed().as_secs_f64()
    )
}

/// Self-test of the one hook that touches live state: the snapshot of the sync cache
/// drains both op queues and re-sends every op. Every history up to `depth` is run
/// twice, once with a snapshot after every operation and once with none; all
/// observations and the final canonical state must be identical. Also checks the
/// footprint claims of the deterministic hashers against the real sketch.
pub fn selftest(depth: usize) -> String {
    let t0 = Instant::now();
    let mut histories = 0u64;
    let mut problems: Vec<String> = Vec::new();
    // hashers
    {
        use mini_moka::verif::SketchFacade;
        let mut sk = SketchFacade::new();
        sk.ensure_capacity(128);
        let foot = |h: u64| (0..4u8).map(|d| sk.counter_of(h, d)).collect::<Vec<_>>();
        let sp = make_hasher(HashKind::Spread);
        for i in 0..8 {
            for j in 0..i {
                if foot(sp.table[i]).iter().any(|c| foot(sp.table[j]).contains(c)) {
                    problems.push(format!("spread hasher: keys {i} and {j} share a sketch counter"));
                }
            }
            if shard_of(sp.table[i], 4) != i % 4 {
                problems.push(format!("spread hasher: key {i} not in shard {}", i % 4));
            }
        }
        let ss = make_hasher(HashKind::SameShard);
        if (0..8).any(|i| shard_of(ss.table[i], 4) != shard_of(ss.table[0], 4)) {
            problems.push("sameshard hasher: keys in different shards".into());
        }
        let co = make_hasher(HashKind::Collide);
        if (0..8).any(|i| co.table[i] != co.table[0]) {
            problems.push("collide hasher: hashes differ".into());
        }
    }
    let cfgs = [
        "kind=S,cap=2,w=1,tti=2,keys=2,beyond=1,tick=1000,alpha=basic,A=2",
        "kind=S,cap=1,w=0,ttl=2,keys=2,beyond=0,tick=200,alpha=basic,A=2",
        "kind=S,cap=none,w=0,keys=2,beyond=1,tick=1000,alpha=inval,A=1",
    ];
    for spec in cfgs {
        let cfg = Cfg::parse(spec);
        let hasher = make_hasher(cfg.hash);
        let alpha = alphabet(&cfg);
        let mut idx = vec![0usize; depth];
        'outer: loop {
            let ops: Vec<Op> = idx.iter().map(|i| alpha[*i]).collect();
            histories += 1;
            let run = |with_snap: bool| -> (Vec<Obs>, u128) {
                tracker().reset();
                let mut sut = Sut::new(&cfg, hasher);
                let mut obs = Vec::new();
                let mut vid = 1;
                for op in &ops {
                    obs.push(sut.apply(&cfg, *op, vid));
                    if op.takes_vid() {
                        vid += 1;
                    }
                    if with_snap {
                        let _ = sut.snapshot();
                    }
                }
                let fp = impl_fp(&sut.snapshot(), sut.clock().now());
                (obs, fp)
            };
            let a = run(true);
            let b = run(false);
            if a != b && problems.len() < 5 {
                problems.push(format!("snapshot is not neutral on {}", witness(&cfg, &ops)));
            }
            // next history
            let mut p = depth;
            loop {
                if p == 0 {
                    break 'outer;
                }
                p -= 1;
                idx[p] += 1;
                if idx[p] < alpha.len() {
                    break;
                }
                idx[p] = 0;
            }
        }
    }
    if !problems.is_empty() {
        eprintln!("MACHINERY: selftest failed: {problems:?}");
        std::process::exit(2);
    }
    format!(
        "{{\"engine\":\"selftest\",\"spec\":\"snapshot neutrality, depth {depth}; hasher footprints\",\"states\":{histories},\"transitions\":{},\"depth_done\":{depth},\"capped\":false,\"outcomes\":1,\"viol_total\":0,\"violations\":[],\"samples\":[\"every history of depth {depth} run with and without snapshots: identical observations and final state\"],\"wall_s\":{:.3}}}",
        histories * 2 * depth as u64,
        t0.elapsed().as_secs_f64()
    )
}

/// Long scripted histories (thresholds such as "half full", 128 sketch words or the
/// eviction batch are far beyond any exhaustive depth): every step goes through the
/// same oracles as the search. Patterns: `fill` (look a key up, insert it, re-read an
/// older one; capacity >= n) and `churn` (the same over a capacity much smaller than n).
pub fn longrun_ops(cfg: &Cfg, pattern: &str, n: usize) -> Vec<Op> {
    let mut ops = Vec::new();
    let s = cfg.kind == Kind::S && !cfg.autosync;
    match pattern {
        // more lookups than a read log holds without any write in between, then a hit
        // whose idle-timer extension must survive maintenance (tti configured)
        "readburst" => {
            ops.push(Op::Ins(0, 1));
            ops.push(Op::Ins(1, 1));
            ops.push(Op::Sync);
            ops.push(Op::Adv(1));
            for i in 0..n {
                ops.push(Op::Get((i % 3) as u8));
            }
            ops.push(Op::Adv(1));
            ops.push(Op::Get(0));
            ops.push(Op::Sync);
            ops.push(Op::Adv(1));
            ops.push(Op::Get(0));
            ops.push(Op::Con(0));
            ops.push(Op::Get(1));
            ops.push(Op::Iter);
            return ops.into_iter().filter(|o| s || !matches!(o, Op::Sync)).collect();
        }
        // more matches than any batch for one invalidate_entries_if / invalidate_all call
        "massinval" => {
            for i in 0..n {
                ops.push(Op::Ins(i as u8, 1));
            }
            ops.push(Op::Sync);
            ops.push(Op::Adv(1));
            ops.push(if cfg.kind == Kind::U { Op::InvIf(Pred::All) } else { Op::InvAll });
            for k in [0, n / 2, n - 1, n - 30] {
                ops.push(Op::Get(k as u8));
                ops.push(Op::Con(k as u8));
            }
            ops.push(Op::Iter);
            ops.push(Op::Sync);
            ops.push(Op::Iter);
            return ops.into_iter().filter(|o| s || !matches!(o, Op::Sync)).collect();
        }
        // an admission contest whose victim walk meets leftovers of invalidated keys (their
        // Remove ops are queued behind the newcomer's insert): exactly 5 in a row, then a
        // live victim ("staleskips5"); 3, a live victim, 3 more, a live victim, for a
        // newcomer of weight 2 ("staleskips33"). n residents of weight 1, capacity n.
        "staleskips5" | "staleskips33" => {
            for i in 0..n {
                ops.push(Op::Ins(i as u8, 1));
            }
            ops.push(Op::Sync);
            // the keys that are going to be invalidated are popular (their leftovers must
            // not count as victims), the newcomer a little less, the live victims not at all
            for k in [0u8, 1, 2, 4] {
                for _ in 0..4 {
                    ops.push(Op::Get(k));
                }
            }
            ops.push(Op::Sync);
            // (one more lookup of every resident in insertion order restores the recency
            // order 0, 1, 2, ... with the leftovers-to-be at the least recently used end)
            for i in 0..n {
                ops.push(Op::Get(i as u8));
            }
            ops.push(Op::Sync);
            for _ in 0..3 {
                ops.push(Op::Get(n as u8));
            }
            ops.push(Op::Sync);
            if pattern == "staleskips5" {
                ops.push(Op::Ins(n as u8, 1));
                for k in 0..5u8 {
                    ops.push(Op::Inv(k));
                }
            } else {
                ops.push(Op::Ins(n as u8, 2));
                for k in [0u8, 1, 2, 4, 5, 6] {
                    ops.push(Op::Inv(k));
                }
            }
            ops.push(Op::Sync);
            ops.push(Op::Get(n as u8));
            ops.push(Op::Iter);
            ops.push(Op::Sync);
            return ops.into_iter().filter(|o| s || !matches!(o, Op::Sync)).collect();
        }
        // weigher + ttl + capacity in the regime where every call first runs the pending
        // maintenance: the size eviction after a growing update meets the node of a key
        // that its own invalidate() has just taken out of the map (Remove op not queued
        // yet); later the oldest entry reaches its deadline while younger ones are alive
        "worotate" => {
            ops.push(Op::Ins(0, 2));
            ops.push(Op::Adv(1));
            ops.push(Op::Ins(1, 3));
            ops.push(Op::Adv(1));
            ops.push(Op::Ins(2, 2));
            ops.push(Op::Adv(1));
            ops.push(Op::Ins(3, 2));
            ops.push(Op::Get(1));
            ops.push(Op::Get(0));
            ops.push(Op::Adv(1));
            ops.push(Op::Ins(3, 6));
            ops.push(Op::Inv(2));
            ops.push(Op::Sync);
            ops.push(Op::Iter);
            ops.push(Op::Adv((n as u8).saturating_sub(4)));
            ops.push(Op::Con(0));
            ops.push(Op::Con(3));
            ops.push(Op::Sync);
            ops.push(Op::Iter);
            ops.push(Op::Sync);
            return ops;
        }
        // a REJECTED newcomer (never looked up, weight 2) whose victim walk passes a live
        // victim and then leftovers of invalidated keys: the leftovers go to the back, the
        // live residents keep their order (checked by M-pass, and by what is evicted next)
        "staleskips-rej" => {
            // (n - 3 residents: the key universe of a long history is 0..=n)
            let n = n - 3;
            for i in 0..n {
                ops.push(Op::Ins(i as u8, 1));
            }
            ops.push(Op::Sync);
            ops.push(Op::Ins(n as u8, 2));
            ops.push(Op::Inv(1));
            ops.push(Op::Inv(2));
            ops.push(Op::Sync);
            ops.push(Op::Iter);
            // the next newcomers are popular and take the LRU residents one by one
            for c in 0..3usize {
                let k = (n + 1 + c) as u8;
                for _ in 0..3 {
                    ops.push(Op::Get(k));
                }
                ops.push(Op::Sync);
                ops.push(Op::Ins(k, 1));
                ops.push(Op::Sync);
                ops.push(Op::Iter);
            }
            return ops.into_iter().filter(|o| s || !matches!(o, Op::Sync)).collect();
        }
        // warm newcomers (looked up 7 times) against a hot resident set, many distinct
        // newcomer keys: every admission decision goes through the popularity comparison
        // with estimates well above 5
        "warm" => {
            let cap = cfg.cap.unwrap_or(4) as usize;
            for i in 0..cap {
                ops.push(Op::Ins(i as u8, 1));
                ops.push(Op::Sync);
            }
            for c in cap..n {
                for i in 0..cap {
                    for _ in 0..3 {
                        ops.push(Op::Get(i as u8));
                    }
                }
                for _ in 0..7 {
                    ops.push(Op::Get(c as u8));
                }
                ops.push(Op::Sync);
                ops.push(Op::Ins(c as u8, 1));
                ops.push(Op::Sync);
            }
            return ops.into_iter().filter(|o| s || !matches!(o, Op::Sync)).collect();
        }
        // one heavy, popular newcomer that needs more victims than the inline capacity of
        // the victim list (8): n unit-weight residents, newcomer of weight n - 1
        "manyvictims" => {
            for i in 0..n {
                ops.push(Op::Ins(i as u8, 1));
            }
            ops.push(Op::Sync);
            for _ in 0..3 {
                ops.push(Op::Get(n as u8));
            }
            ops.push(Op::Sync);
            ops.push(Op::Ins(n as u8, (n - 1) as u8));
            ops.push(Op::Sync);
            ops.push(Op::Get(n as u8));
            ops.push(Op::Iter);
            return ops.into_iter().filter(|o| s || !matches!(o, Op::Sync)).collect();
        }
        // more entries than one purge batch expire at the same reading
        // ... and then the update of a key whose expired entry the purge (one batch per
        // call) has not reached yet, lookups of it, more updates of unpurged keys
        "massexpiry-upd" => {
            for i in 0..n {
                ops.push(Op::Ins(i as u8, 1));
                if s && i % 50 == 49 {
                    ops.push(Op::Sync);
                }
            }
            ops.push(Op::Sync);
            ops.push(Op::Adv(2));
            ops.push(Op::Ins((n - 1) as u8, 1));
            ops.push(Op::Get((n - 1) as u8));
            ops.push(Op::Con((n - 1) as u8));
            ops.push(Op::Ins((n - 2) as u8, 1));
            ops.push(Op::Iter);
            ops.push(Op::Sync);
            ops.push(Op::Get((n - 1) as u8));
            ops.push(Op::Get((n - 2) as u8));
            ops.push(Op::Ins((n - 3) as u8, 1));
            ops.push(Op::Inv((n - 2) as u8));
            ops.push(Op::Iter);
            ops.push(Op::Adv(1));
            ops.push(Op::Get((n - 1) as u8));
            ops.push(Op::Sync);
            ops.push(Op::Adv(1));
            ops.push(Op::Iter);
            ops.push(Op::Ins(0, 1));
            ops.push(Op::Sync);
            ops.push(Op::Iter);
            return ops.into_iter().filter(|o| s || !matches!(o, Op::Sync)).collect();
        }
        "massexpiry" => {
            for i in 0..n {
                ops.push(Op::Ins(i as u8, 1));
                if s && i % 50 == 49 {
                    ops.push(Op::Sync);
                }
            }
            ops.push(Op::Sync);
            ops.push(Op::Adv(1));
            ops.push(Op::Ins(n as u8, 1));
            ops.push(Op::Adv(1));
            for k in [n - 1, n - 20, n / 2, 0, n] {
                ops.push(Op::Get(k as u8));
                ops.push(Op::Con(k as u8));
            }
            ops.push(Op::Iter);
            ops.push(Op::Sync);
            ops.push(Op::Iter);
            ops.push(Op::Get((n - 2) as u8));
            return ops.into_iter().filter(|o| s || !matches!(o, Op::Sync)).collect();
        }
        _ => {}
    }
    for i in 0..n {
        let k = i as u8;
        let w = if cfg.weigher { 1 + (i % 3) as u8 } else { 1 };
        ops.push(Op::Get(k));
        ops.push(Op::Ins(k, if pattern == "fill" { 1 } else { w }));
        if i >= 3 && i % 2 == 0 {
            ops.push(Op::Get(k - 2));
        }
        if i % 7 == 6 {
            ops.push(Op::Ins(k - 3, if cfg.weigher { 2 } else { 1 }));
        }
        if i % 11 == 10 {
            ops.push(Op::Inv(k - 5));
        }
        if s && i % 4 == 3 {
            ops.push(Op::Sync);
        }
    }
    if s {
        ops.push(Op::Sync);
    }
    ops
}

pub fn longrun(spec: &str, pattern: &str, n: usize) -> String {
    let t0 = Instant::now();
    let mut cfg = Cfg::parse(spec);
    cfg.nkeys = (n + 1).min(254) as u8;
    let hasher = make_hasher(cfg.hash);
    let ops = longrun_ops(&cfg, pattern, n);
    tracker().reset();
    let mut sut = Sut::new(&cfg, hasher);
    let mut model = Model::new(&cfg);
    let mut viols: Vec<Violation> = Vec::new();
    let mut sigs: HashSet<(String, String)> = HashSet::new();
    let w = format!("longrun|{}|{pattern}|{n}", cfg.spec());
    let mut steps = 0u64;
    for op in &ops {
        let pre = sut.snapshot();
        let out = step(&cfg, &mut sut, &mut model, &pre, *op, &hasher);
        steps += 1;
        for mut v in out.viol {
            if sigs.insert((v.prop.to_string(), v.sig.clone())) {
                v.detail = format!("step {steps} ({}): {}", op.text(), v.detail);
                v.witness = w.clone();
                viols.push(v);
            }
        }
        if out.dead {
            std::mem::forget(sut);
            return longrun_json(&cfg, pattern, steps, &viols, &w, t0);
        }
    }
    drop(sut);
    let (lk, lv) = tracker().live();
    if lk != 0 || lv != 0 {
        viols.push(Violation { prop: "C11", sig: "longrun:leak-after-drop".into(), detail: format!("{lk} keys and {lv} values alive after drop"), witness: w.clone() });
    }
    longrun_json(&cfg, pattern, steps, &viols, &w, t0)
}

fn longrun_json(cfg: &Cfg, pattern: &str, steps: u64, viols: &[Violation], w: &str, t0: Instant) -> String {
    format!(
        "{{\"engine\":\"longrun\",\"spec\":{},\"states\":{steps},\"transitions\":{steps},\"depth_done\":{steps},\"capped\":false,\"outcomes\":1,\"viol_total\":{},\"violations\":{},\"samples\":[{}],\"wall_s\":{:.3}}}",
        jstr(&format!("{pattern}: {}", cfg.spec())),
        viols.len(),
        jlist(&viols.iter().map(|v| v.to_json()).collect::<Vec<_>>()),
        jstr(w),
        t0.elapsed().as_secs_f64()
    )
}

pub fn longrun_replay(w: &str) -> Vec<Violation> {
    let parts: Vec<&str> = w.split('|').collect();
    let out = longrun(parts[1], parts[2], parts[3].parse().unwrap());
    println!("{out}");
    // re-run and print the violated clauses in the replay format
    let mut cfg = Cfg::parse(parts[1]);
    cfg.nkeys = (parts[3].parse::<usize>().unwrap() + 1).min(254) as u8;
    let hasher = make_hasher(cfg.hash);
    let ops = longrun_ops(&cfg, parts[2], parts[3].parse().unwrap());
    tracker().reset();
    let mut sut = Sut::new(&cfg, hasher);
    let mut model = Model::new(&cfg);
    let mut all = Vec::new();
    let mut seen: HashSet<(String, String)> = HashSet::new();
    for (i, op) in ops.iter().enumerate() {
        let pre = sut.snapshot();
        let o = step(&cfg, &mut sut, &mut model, &pre, *op, &hasher);
        for v in o.viol {
            if seen.insert((v.prop.to_string(), v.sig.clone())) {
                println!("      VIOLATED {} [{}]: step {} ({}): {}", v.prop, v.sig, i + 1, op.text(), v.detail);
                all.push(v);
            }
        }
        if o.dead {
            std::mem::forget(sut);
            return all;
        }
    }
    // release on drop, as in the run itself
    drop(sut);
    let (lk, lv) = tracker().live();
    if lk != 0 || lv != 0 {
        let v = Violation { prop: "C11", sig: "longrun:leak-after-drop".into(), detail: format!("{lk} keys and {lv} values alive after drop"), witness: w.to_string() };
        println!("      VIOLATED {} [{}]: {}", v.prop, v.sig, v.detail);
        all.push(v);
    }
    all
}
