//! E2: stateless, preemption-bounded exploration of thread schedules of the REAL
//! `sync::Cache` with real OS threads under a baton-passing scheduler.
//!
//! Exactly one thread runs at a time. At every instrumented point the running
//! thread calls into the scheduler (through the cfg-guarded hook in the crate),
//! which decides - in the context of that thread - who runs next, wakes it and
//! parks the caller. The explorer enumerates choice sequences depth first:
//! replay a prefix (any divergence is a hard error), default choice 0 afterwards,
//! and for every later choice point within the preemption budget recurse on every
//! alternative. Switching away from a thread that could have continued costs one
//! preemption; switching at a blocking point whose probe is false, at a yield
//! point or at thread exit is free.

use crate::common::*;
use crate::model::walk;
use crate::sut::*;
use mini_moka::sync::ConcurrentCacheExt;
use mini_moka::verif::{Event, MockClock, Sched};
use std::collections::HashSet;
use std::panic::{catch_unwind, AssertUnwindSafe};
use std::sync::atomic::{AtomicU64, Ordering::SeqCst};
use std::sync::{Arc, Condvar, Mutex};
use std::time::{Duration, Instant};

// ---------------------------------------------------------------------------
// Programs
// ---------------------------------------------------------------------------

#[derive(Clone, Copy, Debug, PartialEq, Eq, Hash)]
pub enum TOp {
    Ins(u8, u8),
    Get(u8),
    Con(u8),
    Inv(u8),
    InvAll,
    Sync,
    Adv(u8),
    /// iterate over the whole cache with a switch point between next() calls
    Iter,
    /// create an iterator, take one item, call get(k) while holding it, drop it
    IterHoldGet(u8),
    /// n inserts without sync; keys cycle through `keys` distinct keys (one atomic region
    /// for the scheduler except where the library itself blocks or yields)
    Burst(u16, u8),
    /// n lookups in a row (keys round robin), one atomic region like Burst
    GBurst(u16, u8),
    /// n inserts (keys round robin), NOT atomic: one switch point (`fb.next`) before every
    /// insert; used with the fair adversary (family `fair`)
    FBurst(u16, u8),
    /// n lookups (keys round robin) with one switch point (`fb.next`) before each: the
    /// producer of read records for the fair adversary
    FGBurst(u16, u8),
}

impl TOp {
    pub fn text(&self) -> String {
        match *self {
            TOp::Ins(k, w) => format!("ins({k},{w})"),
            TOp::Get(k) => format!("get({k})"),
            TOp::Con(k) => format!("con({k})"),
            TOp::Inv(k) => format!("inv({k})"),
            TOp::InvAll => "invall".into(),
            TOp::Sync => "sync".into(),
            TOp::Adv(n) => format!("adv({n})"),
            TOp::Iter => "iter".into(),
            TOp::IterHoldGet(k) => format!("iterholdget({k})"),
            TOp::Burst(n, k) => format!("burst({n},{k})"),
            TOp::GBurst(n, k) => format!("gburst({n},{k})"),
            TOp::FBurst(n, k) => format!("fburst({n},{k})"),
            TOp::FGBurst(n, k) => format!("fgburst({n},{k})"),
        }
    }
    pub fn parse(s: &str) -> TOp {
        let (name, args) = match s.split_once('(') {
            Some((n, r)) => (n, r.trim_end_matches(')')),
            None => (s, ""),
        };
        let a: Vec<u16> = args.split(',').filter(|x| !x.is_empty()).map(|x| x.trim().parse().unwrap()).collect();
        match name {
            "ins" => TOp::Ins(a[0] as u8, a[1] as u8),
            "get" => TOp::Get(a[0] as u8),
            "con" => TOp::Con(a[0] as u8),
            "inv" => TOp::Inv(a[0] as u8),
            "invall" => TOp::InvAll,
            "sync" => TOp::Sync,
            "adv" => TOp::Adv(a[0] as u8),
            "iter" => TOp::Iter,
            "iterholdget" => TOp::IterHoldGet(a[0] as u8),
            "burst" => TOp::Burst(a[0], a[1] as u8),
            "gburst" => TOp::GBurst(a[0], a[1] as u8),
            "fburst" => TOp::FBurst(a[0], a[1] as u8),
            "fgburst" => TOp::FGBurst(a[0], a[1] as u8),
            _ => panic!("bad thread op {s}"),
        }
    }
    fn is_burst(&self) -> bool {
        matches!(self, TOp::Burst(..) | TOp::GBurst(..) | TOp::FBurst(..) | TOp::FGBurst(..))
    }
    fn writes_key(&self) -> Option<u8> {
        match *self {
            TOp::Ins(k, _) | TOp::Inv(k) => Some(k),
            _ => None,
        }
    }
}

#[derive(Clone, Debug)]
pub struct Program {
    pub cfg: Cfg,
    pub prefix: Vec<Op>,
    pub threads: Vec<Vec<TOp>>,
}

impl Program {
    pub fn text(&self) -> String {
        format!(
            "{}|{}|{}",
            self.cfg.spec(),
            ops_text(&self.prefix),
            self.threads.iter().map(|t| t.iter().map(|o| o.text()).collect::<Vec<_>>().join(" ")).collect::<Vec<_>>().join(" // ")
        )
    }
    pub fn parse(cfg: &str, prefix: &str, threads: &str) -> Program {
        Program {
            cfg: Cfg::parse(cfg),
            prefix: parse_ops(prefix),
            threads: threads.split("//").map(|t| t.split_whitespace().map(TOp::parse).collect()).collect(),
        }
    }
}

// ---------------------------------------------------------------------------
// Scheduler
// ---------------------------------------------------------------------------

#[derive(Clone, Copy)]
struct Probe(*const (dyn Fn() -> bool + 'static));
unsafe impl Send for Probe {}

#[derive(Clone, Copy)]
enum Park {
    Start,
    Switch,
    Block(Probe),
    /// grant count at the time of the yield
    Yield(u64),
}

#[derive(Clone, Copy)]
enum Status {
    Running,
    Parked(Park, &'static str),
    Done,
}

#[derive(Clone, Debug, PartialEq, Eq)]
pub struct ChoicePoint {
    pub n_enabled: u16,
    pub chosen: u16,
    /// the deciding thread itself was enabled (then it is option 0 and any other choice is a preemption)
    pub running_enabled: bool,
    pub label: &'static str,
    pub decider: i16,
}

#[derive(Clone, Debug, PartialEq)]
pub enum Abort {
    Deadlock(String),
    Livelock(String),
    Divergence(String),
}

struct St {
    status: Vec<Status>,
    turn: Option<usize>,
    prefix: Vec<(u16, u16)>, // (choice, n_enabled expected)
    pos: usize,
    trace: Vec<ChoicePoint>,
    events: u64,
    grants: u64,
    abort: Option<Abort>,
    finished: bool,
    /// when > 0 for a thread, its Switch events do not create choice points (atomic region)
    atomic: Vec<bool>,
    max_events: u64,
    /// how often each thread was given the baton
    granted: Vec<u64>,
    /// stutter reduction: per thread (loop marker label, consecutive iterations, grants
    /// to the other threads when the run of iterations began)
    stutter: Vec<(&'static str, u32, u64)>,
    /// how often in a row a thread was let run again from its yield point because nobody
    /// else could run
    solo_spins: Vec<u32>,
    /// the fair adversary decides where the replayed prefix ends (family `fair`): a thread
    /// that is applying queued ops hands over after every op, a thread in an `FBurst`
    /// hands back after every insert
    fair: bool,
}

/// inserts of `FBurst` ops completed so far in this execution
static FB_DONE: AtomicU64 = AtomicU64::new(0);

pub struct Shared {
    m: Mutex<St>,
    cv: Condvar,
    seq: AtomicU64,
}

struct AbortUnwind;

const SPIN_LIMIT: u32 = 50;
const STUTTER_K: u32 = 4;
const STUTTER_BODY: [&str; 3] = ["chk.wo", "chk.ao", "map.remove_if"];

impl Shared {
    fn new(n: usize, prefix: Vec<(u16, u16)>, max_events: u64, fair: bool) -> Arc<Shared> {
        Arc::new(Shared {
            m: Mutex::new(St {
                status: vec![Status::Running; n],
                turn: None,
                prefix,
                pos: 0,
                trace: Vec::new(),
                events: 0,
                grants: 0,
                abort: None,
                finished: false,
                atomic: vec![false; n],
                max_events,
                granted: vec![0; n],
                stutter: vec![("", 0, 0); n],
                solo_spins: vec![0; n],
                fair,
            }),
            cv: Condvar::new(),
            seq: AtomicU64::new(1),
        })
    }

    fn tick(&self) -> u64 {
        self.seq.fetch_add(1, SeqCst)
    }

    fn enabled_of(st: &St, t: usize) -> bool {
        match st.status[t] {
            Status::Done | Status::Running => false,
            Status::Parked(p, _) => match p {
                Park::Start | Park::Switch => true,
                Park::Block(pr) => unsafe { (*pr.0)() },
                Park::Yield(at) => st.grants > at,
            },
        }
    }

    /// Picks the next thread to run. `me`: the deciding thread (None for the main thread).
    /// Returns false if the execution was aborted or has finished.
    fn decide(&self, st: &mut St, me: Option<usize>, label: &'static str) -> bool {
        let n = st.status.len();
        let mut enabled: Vec<usize> = Vec::with_capacity(n);
        let me_enabled = me.map(|m| Self::enabled_of(st, m)).unwrap_or(false);
        if let (Some(m), true) = (me, me_enabled) {
            enabled.push(m);
        }
        for t in 0..n {
            if Some(t) != me && Self::enabled_of(st, t) {
                enabled.push(t);
            }
        }
        // Only threads in a retry loop are left (everybody else has finished or is blocked):
        // a retry loop may make progress on its own (the full-queue loop of an insert runs
        // the housekeeping itself on every iteration), so the lowest-numbered spinner is
        // let run again - no choice point - instead of calling this a livelock at once.
        // A thread that comes back to its yield point SPIN_LIMIT times in a row without
        // anyone else having run in between is spinning for good.
        if enabled.is_empty() {
            if let Some(t) = (0..n).find(|t| matches!(st.status[*t], Status::Parked(Park::Yield(_), _))) {
                st.solo_spins[t] += 1;
                if st.solo_spins[t] <= SPIN_LIMIT {
                    st.turn = Some(t);
                    st.grants += 1;
                    st.granted[t] += 1;
                    self.cv.notify_all();
                    return true;
                }
            }
        }
        if enabled.is_empty() {
            let unfinished: Vec<String> = (0..n)
                .filter_map(|t| match st.status[t] {
                    Status::Parked(p, l) => Some(format!(
                        "T{t}@{l}{}",
                        match p {
                            Park::Yield(_) => "(spinning)",
                            Park::Block(_) => "(blocked)",
                            _ => "",
                        }
                    )),
                    _ => None,
                })
                .collect();
            if unfinished.is_empty() {
                st.finished = true;
            } else {
                let spinning = (0..n).any(|t| matches!(st.status[t], Status::Parked(Park::Yield(_), _)));
                let msg = format!("no thread can run: {}", unfinished.join(", "));
                st.abort = Some(if spinning { Abort::Livelock(msg) } else { Abort::Deadlock(msg) });
            }
            self.cv.notify_all();
            return false;
        }
        // an atomic region: the running thread simply continues, no choice point
        if let (Some(m), true) = (me, me_enabled) {
            if st.atomic[m] {
                st.turn = Some(m);
                return true;
            }
        }
        let c = if st.pos < st.prefix.len() {
            let (c, want_n) = st.prefix[st.pos];
            if want_n as usize != enabled.len() || c as usize >= enabled.len() {
                st.abort = Some(Abort::Divergence(format!(
                    "choice point {} at {label}: recorded {} enabled threads, now {}",
                    st.pos,
                    want_n,
                    enabled.len()
                )));
                self.cv.notify_all();
                return false;
            }
            c as usize
        } else if st.fair && me_enabled && enabled.len() > 1 && matches!(label, "wr.apply" | "rd.apply" | "fb.next") {
            // the fair adversary: consumer and producer take turns, one op each
            1
        } else {
            0
        };
        st.pos += 1;
        st.trace.push(ChoicePoint { n_enabled: enabled.len() as u16, chosen: c as u16, running_enabled: me_enabled, label, decider: me.map(|m| m as i16).unwrap_or(-1) });
        st.turn = Some(enabled[c]);
        st.grants += 1;
        st.granted[enabled[c]] += 1;
        // somebody else runs: the others' spin counts start over
        let g = enabled[c];
        for (x, sp) in st.solo_spins.iter_mut().enumerate() {
            if x != g {
                *sp = 0;
            }
        }
        self.cv.notify_all();
        true
    }

    /// Called by thread `me` at an instrumented point.
    fn park(&self, me: usize, park: Park, label: &'static str) {
        let mut st = self.m.lock().unwrap();
        if st.abort.is_some() {
            drop(st);
            std::panic::resume_unwind(Box::new(AbortUnwind));
        }
        st.events += 1;
        if st.events > st.max_events {
            st.abort = Some(Abort::Livelock(format!("more than {} scheduling events (last at T{me}@{label})", st.max_events)));
            self.cv.notify_all();
            drop(st);
            std::panic::resume_unwind(Box::new(AbortUnwind));
        }
        // loop-iteration markers only count towards the event budget (so that an unbounded
        // loop is a livelock); they are not choice points: the loop bodies have their own
        let free_block = match park {
            Park::Block(pr) => unsafe { (*pr.0)() },
            _ => false,
        };
        if matches!(park, Park::Switch) || free_block {
            let others = st.grants - st.granted[me];
            if label.ends_with(".iter") {
                let s = &mut st.stutter[me];
                if s.0 == label && s.2 == others {
                    s.1 += 1;
                } else {
                    *s = (label, 1, others);
                }
                return;
            }
            // stutter reduction: a purge loop whose entry was already taken out of the map
            // by a concurrent invalidate spins through its whole batch (up to 500
            // iterations) without changing anything; after STUTTER_K iterations during
            // which no other thread ran, the points inside the loop body stop being choice
            // points (another thread could have been switched in at each of the first
            // STUTTER_K iterations; later iterations repeat the same state)
            if STUTTER_BODY.contains(&label) {
                let s = st.stutter[me];
                if s.1 > STUTTER_K && s.2 == others {
                    return;
                }
            } else {
                st.stutter[me] = ("", 0, 0);
            }
        }
        let park = match park {
            Park::Yield(_) => Park::Yield(st.grants),
            p => p,
        };
        st.status[me] = Status::Parked(park, label);
        if !matches!(park, Park::Start) {
            self.decide(&mut st, Some(me), label);
        } else {
            self.cv.notify_all();
        }
        while st.turn != Some(me) && st.abort.is_none() {
            st = self.cv.wait(st).unwrap();
        }
        if st.abort.is_some() {
            drop(st);
            std::panic::resume_unwind(Box::new(AbortUnwind));
        }
        st.status[me] = Status::Running;
        st.turn = None;
    }

    fn done(&self, me: usize) {
        let mut st = self.m.lock().unwrap();
        st.status[me] = Status::Done;
        if st.abort.is_none() {
            self.decide(&mut st, None, "thread.exit");
        }
        self.cv.notify_all();
    }
}

struct ThreadSched {
    sh: Arc<Shared>,
    me: usize,
}

impl Sched for ThreadSched {
    fn event(&self, ev: Event<'_>) {
        match ev {
            Event::Switch(l) => self.sh.park(self.me, Park::Switch, l),
            Event::Block(l, probe) => {
                let p: &'static (dyn Fn() -> bool + 'static) = unsafe { std::mem::transmute(probe) };
                self.sh.park(self.me, Park::Block(Probe(p as *const _)), l)
            }
            Event::Yield(l) => self.sh.park(self.me, Park::Yield(0), l),
        }
    }
}

// ---------------------------------------------------------------------------
// One execution
// ---------------------------------------------------------------------------

#[derive(Clone, Debug)]
pub struct Rec {
    pub thread: i32,
    pub idx: usize,
    pub op: TOp,
    pub vid: u32,
    pub start: u64,
    pub end: u64,
    /// clock reading (ms) when the call began / returned
    pub t0: i64,
    pub t1: i64,
    pub obs: Obs,
    pub completed: bool,
    /// inserts of FBurst ops (any thread) that had completed when this call returned
    pub fb_done: u64,
}

pub struct Exec {
    pub trace: Vec<ChoicePoint>,
    pub recs: Vec<Rec>,
    pub abort: Option<Abort>,
    pub viol: Vec<Violation>,
    pub outcome: u64,
    pub events: u64,
}

fn vid_of(thread: usize, idx: usize) -> u32 {
    100 * (thread as u32 + 1) + idx as u32
}

fn thread_body(c: &SC, clock: &MockClock, cfg: &Cfg, sh: &Arc<Shared>, me: usize, ops: &[TOp], recs: &Mutex<Vec<Rec>>) {
    let sched = ThreadSched { sh: sh.clone(), me };
    for (idx, op) in ops.iter().enumerate() {
        let vid = vid_of(me, idx);
        let start = sh.tick();
        let t0 = clock.elapsed().as_millis() as i64;
        let mut rec = Rec { thread: me as i32, idx, op: *op, vid, start, end: u64::MAX, t0, t1: i64::MAX, obs: Obs::Unit, completed: false, fb_done: 0 };
        let slot = {
            let mut r = recs.lock().unwrap();
            r.push(rec.clone());
            r.len() - 1
        };
        let obs = match *op {
            TOp::Ins(k, w) => {
                c.insert(K::new(k), V::new(vid, crate::sut::weight_of(w)));
                Obs::Unit
            }
            TOp::Get(k) => Obs::Val(c.get(&K::probe(k)).map(|v| (v.id, v.w))),
            TOp::Con(k) => Obs::Bool(c.contains_key(&K::probe(k))),
            TOp::Inv(k) => {
                c.invalidate(&K::probe(k));
                Obs::Unit
            }
            TOp::InvAll => {
                c.invalidate_all();
                Obs::Unit
            }
            TOp::Sync => {
                let others = |sh: &Arc<Shared>| {
                    let st = sh.m.lock().unwrap();
                    st.grants - st.granted[me]
                };
                let g0 = others(sh);
                c.sync();
                // sync() "performs any pending maintenance": if no other thread ran while
                // it executed, nothing can be left in the queues when it returns
                let g1 = others(sh);
                let (rq, wq) = c.verif_queue_lens();
                // (252: did another thread run during the call?)
                Obs::Items(vec![(255, rq as u32), (254, wq as u32), (252, (g0 != g1) as u32)])
            }
            TOp::Adv(n) => {
                clock.advance(cfg.ticks(n as u64));
                Obs::Unit
            }
            TOp::Iter => {
                let mut items = Vec::new();
                let mut it = c.iter();
                loop {
                    sched.event(Event::Switch("iter.next"));
                    match it.next() {
                        Some(r) => items.push((r.key().k, r.value().id)),
                        None => break,
                    }
                }
                drop(it);
                Obs::Items(items)
            }
            TOp::IterHoldGet(k) => {
                let mut it = c.iter();
                let first = it.next().map(|r| (r.key().k, r.value().id));
                sched.event(Event::Switch("iter.held"));
                let g = c.get(&K::probe(k)).map(|v| (v.id, v.w));
                drop(it);
                let _ = first;
                Obs::Val(g)
            }
            TOp::GBurst(n, keys) => {
                sh.m.lock().unwrap().atomic[me] = true;
                for i in 0..n {
                    let _ = c.get(&K::probe((i % keys.max(1) as u16) as u8));
                }
                sh.m.lock().unwrap().atomic[me] = false;
                Obs::Unit
            }
            TOp::FBurst(n, keys) => {
                for i in 0..n {
                    sched.event(Event::Switch("fb.next"));
                    c.insert(K::new((i % keys.max(1) as u16) as u8), V::new(vid + i as u32, 1));
                    FB_DONE.fetch_add(1, SeqCst);
                }
                Obs::Unit
            }
            TOp::FGBurst(n, keys) => {
                for i in 0..n {
                    sched.event(Event::Switch("fb.next"));
                    let _ = c.get(&K::probe((i % keys.max(1) as u16) as u8));
                    FB_DONE.fetch_add(1, SeqCst);
                }
                Obs::Unit
            }
            TOp::Burst(n, keys) => {
                sh.m.lock().unwrap().atomic[me] = true;
                for i in 0..n {
                    c.insert(K::new((i % keys.max(1) as u16) as u8), V::new(vid + i as u32, 1));
                }
                sh.m.lock().unwrap().atomic[me] = false;
                // "overshoots by no more than its bounded write queue plus one entry per
                // inserting thread": whatever the other threads are doing (one may be
                // parked inside a maintenance pass), the write log never holds more than
                // its 384 slots when a burst of inserts returns
                let (_rq, wq) = c.verif_queue_lens();
                match c.verif_queue_caps().1 {
                    // (251: the capacity of the write log; 0 = it has none)
                    None => Obs::Items(vec![(253, wq as u32), (251, 0)]),
                    Some(bound) if wq > bound => Obs::Items(vec![(253, wq as u32), (251, bound as u32)]),
                    _ => Obs::Unit,
                }
            }
        };
        rec.obs = obs;
        rec.end = sh.tick();
        rec.t1 = clock.elapsed().as_millis() as i64;
        rec.completed = true;
        rec.fb_done = FB_DONE.load(SeqCst);
        recs.lock().unwrap()[slot] = rec;
    }
}

pub fn run_once(prog: &Program, hasher: &TableHasher, prefix: &[(u16, u16)], max_events: u64) -> Exec {
    tracker().reset();
    let cfg = &prog.cfg;
    // programs of the "fine" family also schedule at the loads of an entry's shared flags
    // and weight (hook sp_fine); everywhere else those loads are part of the step around them
    mini_moka::verif::set_fine(cfg.alpha == "fine");
    let mut sut = Sut::new(cfg, *hasher);
    let mut viol: Vec<Violation> = Vec::new();
    // sequential prelude on this thread (no scheduler installed): exploration
    // starts from a non-initial state
    let mut recs0: Vec<Rec> = Vec::new();
    let mut pvid = 1u32;
    for (i, op) in prog.prefix.iter().enumerate() {
        let t0 = sut.clock().elapsed().as_millis() as i64;
        let r = catch_unwind(AssertUnwindSafe(|| sut.apply(cfg, *op, pvid)));
        if r.is_err() {
            viol.push(Violation { prop: "C08", sig: "sched:panic:prefix".into(), detail: "prefix operation panicked".into(), witness: String::new() });
        }
        let top = match *op {
            Op::Ins(k, w) => Some(TOp::Ins(k, w)),
            Op::Inv(k) => Some(TOp::Inv(k)),
            Op::InvAll => Some(TOp::InvAll),
            _ => None,
        };
        if let Some(t) = top {
            let t1 = sut.clock().elapsed().as_millis() as i64;
            recs0.push(Rec { thread: -1, idx: i, op: t, vid: pvid, start: 0, end: 0, t0, t1, obs: Obs::Unit, completed: true, fb_done: 0 });
        }
        if op.takes_vid() {
            pvid += 1;
        }
        // a successful prefix lookup extends the entry's idle deadline: recorded (as
        // thread -2) for the time-to-idle clause only
        if let (Op::Get(k), Ok(obs @ Obs::Val(Some(_)))) = (op, &r) {
            let t1 = sut.clock().elapsed().as_millis() as i64;
            recs0.push(Rec { thread: -2, idx: i, op: TOp::Get(*k), vid: 0, start: 0, end: 0, t0, t1, obs: obs.clone(), completed: true, fb_done: 0 });
        }
    }
    let (cache, clock) = match &sut {
        Sut::S { c, clock } => (c.clone(), clock.clone()),
        _ => panic!("schedx runs the sync cache only"),
    };
    let n = prog.threads.len();
    FB_DONE.store(0, SeqCst);
    let sh = Shared::new(n, prefix.to_vec(), max_events, cfg.alpha == "fair");
    let recs = Arc::new(Mutex::new(Vec::<Rec>::new()));
    let mut handles = Vec::new();
    let panics = Arc::new(Mutex::new(Vec::<String>::new()));
    for (t, ops) in prog.threads.iter().enumerate() {
        let c = cache.clone();
        let clock = clock.clone();
        let cfg = cfg.clone();
        let sh2 = sh.clone();
        let ops = ops.clone();
        let recs = recs.clone();
        let panics = panics.clone();
        handles.push(
            std::thread::Builder::new()
                .stack_size(256 * 1024)
                .spawn(move || {
                    mini_moka::verif::install_sched(Some(Arc::new(ThreadSched { sh: sh2.clone(), me: t })));
                    let r = catch_unwind(AssertUnwindSafe(|| {
                        sh2.park(t, Park::Start, "thread.start");
                        thread_body(&c, &clock, &cfg, &sh2, t, &ops, &recs);
                    }));
                    mini_moka::verif::install_sched(None);
                    if let Err(p) = r {
                        if p.downcast_ref::<AbortUnwind>().is_none() {
                            let msg = panic_msg(&p);
                            panics.lock().unwrap().push(format!("T{t}: {msg}"));
                            // a panicking thread may have died mid-operation: stop everything
                            let mut st = sh2.m.lock().unwrap();
                            if st.abort.is_none() {
                                st.abort = Some(Abort::Deadlock(format!("thread T{t} panicked: {msg}")));
                            }
                            sh2.cv.notify_all();
                            return;
                        }
                    }
                    drop(c);
                    sh2.done(t);
                })
                .unwrap(),
        );
    }
    drop(cache);
    // wait until every thread is parked at its start, then make the first choice
    {
        let mut st = sh.m.lock().unwrap();
        loop {
            let ready = st.status.iter().all(|s| matches!(s, Status::Parked(Park::Start, _) | Status::Done));
            if ready || st.abort.is_some() {
                break;
            }
            st = sh.cv.wait(st).unwrap();
        }
        if st.abort.is_none() {
            sh.decide(&mut st, None, "start");
        }
        let deadline = Instant::now() + Duration::from_secs(60);
        while !st.finished && st.abort.is_none() {
            let (g, to) = sh.cv.wait_timeout(st, Duration::from_secs(5)).unwrap();
            st = g;
            if to.timed_out() && Instant::now() > deadline {
                // backstop only: its firing is a machinery error, never a verdict
                st.abort = Some(Abort::Divergence("wall-clock watchdog: the harness itself is stuck".into()));
                sh.cv.notify_all();
                break;
            }
        }
    }
    for h in handles {
        let _ = h.join();
    }
    let (trace, abort, events) = {
        let st = sh.m.lock().unwrap();
        (st.trace.clone(), st.abort.clone(), st.events)
    };
    let mut all = recs0;
    all.extend(recs.lock().unwrap().iter().cloned());
    let thread_panics = panics.lock().unwrap().clone();
    for p in &thread_panics {
        let short: String = p.chars().take(70).collect();
        viol.push(Violation { prop: "C08", sig: format!("sched:panic:{short}"), detail: format!("a cache operation panicked: {p}"), witness: String::new() });
    }
    let mut outcome = {
        use std::hash::{Hash, Hasher};
        let mut h = std::collections::hash_map::DefaultHasher::new();
        for r in &all {
            r.obs.hash(&mut h);
        }
        h.finish()
    };
    match &abort {
        Some(Abort::Deadlock(m)) if thread_panics.is_empty() => {
            let holder = prog.threads.iter().any(|t| t.iter().any(|o| matches!(o, TOp::IterHoldGet(_) | TOp::Iter)));
            let site = if m.contains("(blocked)") && holder && m.contains("@map.") {
                "maintenance-removal-blocked-by-iterator"
            } else {
                "other"
            };
            viol.push(Violation { prop: "C09", sig: format!("sched:deadlock:{site}"), detail: m.clone(), witness: String::new() });
        }
        Some(Abort::Livelock(m)) => viol.push(Violation { prop: "C09", sig: "sched:livelock".into(), detail: m.clone(), witness: String::new() }),
        _ => {}
    }
    if abort.is_none() && thread_panics.is_empty() {
        postlude(prog, &mut sut, &all, &mut viol, &mut outcome);
        // drop with whatever is queued: everything must be released
        let r = catch_unwind(AssertUnwindSafe(move || drop(sut)));
        if r.is_err() {
            viol.push(Violation { prop: "C08", sig: "sched:panic:drop".into(), detail: "dropping the cache panicked".into(), witness: String::new() });
        } else {
            let (lk, lv) = tracker().live();
            if lk != 0 || lv != 0 {
                viol.push(Violation { prop: "C11", sig: "sched:leak-after-drop".into(), detail: format!("{lk} keys and {lv} values alive after the last handle was dropped"), witness: String::new() });
            }
        }
        for p in tracker().take_problems() {
            viol.push(Violation { prop: "C11", sig: "sched:drop-protocol".into(), detail: p.clone(), witness: String::new() });
            viol.push(Violation { prop: "C08", sig: "sched:drop-protocol".into(), detail: p, witness: String::new() });
        }
    } else {
        // threads were unwound out of the library: its state is not meaningful
        std::mem::forget(sut);
    }
    Exec { trace, recs: all, abort, viol, outcome, events }
}

/// `x` began after `w` had returned (real-time order; prelude ops precede all thread ops).
fn after(x: &Rec, w: &Rec) -> bool {
    match (x.thread == -1, w.thread == -1) {
        (true, true) => x.idx > w.idx,
        (true, false) => false,
        (false, true) => true,
        (false, false) => w.completed && x.start > w.end,
    }
}

/// Does some write to `k` by `x` supersede the insert `ins` before `reader_start`?
fn superseded(all: &[Rec], ins: &Rec, k: u8, before: u64) -> Option<String> {
    for x in all {
        if !x.completed || x.end >= before || std::ptr::eq(x, ins) {
            continue;
        }
        if !after(x, ins) {
            continue; // overlaps or precedes the insert
        }
        match x.op {
            TOp::Ins(k2, _) | TOp::Inv(k2) if k2 == k => return Some(format!("T{}#{} {}", x.thread, x.idx, x.op.text())),
            // invalidate_all counts for entries inserted at a strictly earlier reading
            TOp::InvAll if ins.t1 < x.t0 => return Some(format!("T{}#{} invall@{}ms (insert at <= {}ms)", x.thread, x.idx, x.t0, ins.t1)),
            _ => {}
        }
    }
    None
}

fn check_history(prog: &Program, all: &[Rec], viol: &mut Vec<Violation>) {
    for r in all {
        if let (TOp::Burst(..), Obs::Items(left)) = (&r.op, &r.obs) {
            let bound = left.get(1).map(|x| x.1).unwrap_or(0);
            let d = if bound == 0 {
                format!("T{}#{} {}: the write log has no capacity bound ({} ops queued when the burst returns); a bounded log is what bounds the overshoot between maintenance runs", r.thread, r.idx, r.op.text(), left[0].1)
            } else {
                format!("T{}#{} {}: {} write ops are queued when the burst returns; the write log is bounded by {bound}, which is what bounds the overshoot between maintenance runs", r.thread, r.idx, r.op.text(), left[0].1)
            };
            viol.push(Violation { prop: "C04", sig: "sched:write-log-above-its-bound".into(), detail: d.clone(), witness: String::new() });
            viol.push(Violation { prop: "C09", sig: "sched:write-log-above-its-bound".into(), detail: d, witness: String::new() });
        }
    }
    // A call that runs the pending maintenance does a bounded amount of work: a pass
    // applies what the logs held when each of its (at most MAX_SYNC_REPEATS + 1) rounds
    // began, so it ends although another thread keeps writing. Under the fair adversary
    // (consumer and producer take turns, one op each) a call that returns only when the
    // producer has no insert left would never return beside a producer that does not stop.
    let fb_total: u64 = prog.threads.iter().flatten().map(|o| if let TOp::FBurst(n, _) | TOp::FGBurst(n, _) = o { *n as u64 } else { 0 }).sum();
    if fb_total > 0 {
        let k = mini_moka::verif::constants();
        let most = ((k.max_sync_repeats + 1) * k.write_log_size.max(k.read_log_size)) as u64;
        for r in all {
            if r.thread >= 0 && r.completed && !matches!(r.op, TOp::FBurst(..) | TOp::FGBurst(..)) && fb_total > most && r.fb_done >= fb_total {
                let starts_before_end = all.iter().any(|x| matches!(x.op, TOp::FBurst(..) | TOp::FGBurst(..)) && x.thread != r.thread && r.start < x.end);
                if starts_before_end {
                    let d = format!(
                        "T{}#{} {} returned only after the other thread had completed all its {fb_total} calls (one per op the call applied); a maintenance pass applies at most {most} queued ops of a kind, so the call can only have ended because the other thread stopped",
                        r.thread, r.idx, r.op.text()
                    );
                    viol.push(Violation { prop: "C09", sig: "sched:call-ends-only-when-writers-stop".into(), detail: d, witness: String::new() });
                }
            }
        }
    }
    // values written inside a Burst are not recorded one by one
    if prog.threads.iter().flatten().any(|o| o.is_burst()) {
        return;
    }
    let prefix_reads: Vec<&Rec> = all.iter().filter(|r| r.thread == -2).collect();
    let all_owned: Vec<Rec> = all.iter().filter(|r| r.thread != -2).cloned().collect();
    let all = &all_owned[..];
    let inserts: Vec<&Rec> = all.iter().filter(|r| matches!(r.op, TOp::Ins(..))).collect();
    let observe = |k: u8, id: u32, reader: &Rec, how: &str, viol: &mut Vec<Violation>| {
        let src = inserts.iter().find(|i| i.vid == id && matches!(i.op, TOp::Ins(k2, _) if k2 == k));
        match src {
            None => viol.push(Violation { prop: "C02", sig: format!("sched:phantom-value:{how}"), detail: format!("T{}#{} {} returned value {id} which no insert of key {k} wrote", reader.thread, reader.idx, reader.op.text()), witness: String::new() }),
            Some(ins) => {
                if ins.start >= reader.end {
                    viol.push(Violation { prop: "C02", sig: format!("sched:value-from-the-future:{how}"), detail: format!("value {id} observed before its insert began"), witness: String::new() });
                }
                if let Some(by) = superseded(all, ins, k, reader.start) {
                    let d = format!(
                        "T{}#{} {} returned value {id} although it had been superseded by {by}, which completed before the lookup began",
                        reader.thread,
                        reader.idx,
                        reader.op.text()
                    );
                    viol.push(Violation { prop: "C02", sig: format!("sched:superseded-value:{how}"), detail: d.clone(), witness: String::new() });
                    if by.contains("inv") {
                        viol.push(Violation { prop: "C07", sig: format!("sched:visible-after-invalidation:{how}"), detail: d, witness: String::new() });
                    }
                }
            }
        }
    };
    for r in all {
        match (&r.op, &r.obs) {
            (TOp::Get(k), Obs::Val(Some((id, _)))) | (TOp::IterHoldGet(k), Obs::Val(Some((id, _)))) => observe(*k, *id, r, "get", viol),
            (TOp::Iter, Obs::Items(items)) => {
                let mut seen = Vec::new();
                for (k, id) in items {
                    if seen.contains(k) {
                        viol.push(Violation { prop: "C16", sig: "sched:iter-duplicate-key".into(), detail: format!("concurrent iteration yielded key {k} twice: {items:?}"), witness: String::new() });
                    }
                    seen.push(*k);
                    let n0 = viol.len();
                    observe(*k, *id, r, "iter", viol);
                    if viol.len() > n0 {
                        let d = viol[n0].detail.clone();
                        viol.push(Violation { prop: "C16", sig: "sched:iter-stale-value".into(), detail: d, witness: String::new() });
                    }
                }
            }
            _ => {}
        }
    }
    // a lookup that finds nothing although an insert of the key had completed before it
    // began, every other write to the key and every invalidate_all came before that
    // insert, and nothing can have evicted or expired it
    {
        let total_w: u64 = inserts.iter().map(|i| if let TOp::Ins(_, w) = i.op { prog.cfg.pw(crate::sut::weight_of(w)) as u64 } else { 0 }).sum();
        let no_pressure = prog.cfg.cap.map(|c| total_w <= c).unwrap_or(true);
        // with ttl / tti: only while the insert cannot have expired yet (its earliest
        // possible reading + the shorter of the two durations is later than the latest
        // reading of the lookup; accesses only ever extend the idle deadline)
        let shortest: Option<i64> = [prog.cfg.ttl_ms(), prog.cfg.tti_ms()].iter().flatten().cloned().min();
        if no_pressure {
            for r in all {
                let k = match (&r.op, &r.obs) {
                    (TOp::Get(k), Obs::Val(None)) => *k,
                    (TOp::Con(k), Obs::Bool(false)) => *k,
                    _ => continue,
                };
                let settled = inserts.iter().any(|i| {
                    matches!(i.op, TOp::Ins(k2, _) if k2 == k)
                        && shortest.map(|d| r.completed && r.t1 < i.t0 + d).unwrap_or(true)
                        && after(r, i)
                        // (another insert of the key never makes it absent: only an
                        // invalidation that had not returned before this insert began can)
                        && all.iter().all(|x| std::ptr::eq(x, *i) || !(matches!(x.op, TOp::Inv(k2) if k2 == k) || matches!(x.op, TOp::InvAll)) || after(i, x))
                });
                if settled {
                    let d = format!("T{}#{} {} found nothing although an insert of key {k} had completed before it began and nothing was written to the key or invalidated afterwards", r.thread, r.idx, r.op.text());
                    viol.push(Violation { prop: "C03", sig: "sched:live-entry-missing".into(), detail: d.clone(), witness: String::new() });
                    viol.push(Violation { prop: "C02", sig: "sched:live-entry-missing".into(), detail: d.clone(), witness: String::new() });
                    if all.iter().any(|x| matches!(x.op, TOp::InvAll | TOp::Inv(_))) {
                        viol.push(Violation { prop: "C07", sig: "sched:live-entry-missing".into(), detail: d, witness: String::new() });
                    }
                }
            }
        }
    }
    // expiry under concurrency (conservative: flagged only when every reading that could
    // have extended the entry's life is certainly too old)
    for r in all {
        let (k, id) = match (&r.op, &r.obs) {
            (TOp::Get(k), Obs::Val(Some((id, _)))) => (*k, *id),
            _ => continue,
        };
        let src = match inserts.iter().find(|i| i.vid == id) {
            Some(i) => i,
            None => continue,
        };
        if let Some(d) = prog.cfg.ttl_ms() {
            if r.t0 >= src.t1 + d {
                viol.push(Violation { prop: "C05", sig: "sched:visible-past-ttl".into(), detail: format!("T{}#{} get({k}) at reading >= {}ms returned a value inserted at <= {}ms with ttl {d}ms", r.thread, r.idx, r.t0, src.t1), witness: String::new() });
            }
        }
        if let Some(d) = prog.cfg.tti_ms() {
            // every insert of k and every earlier successful get of k that could precede this get
            let latest_access = all
                .iter()
                .filter(|x| !std::ptr::eq(*x, r) && !after(x, r))
                .filter(|x| matches!(x.op, TOp::Ins(k2, _) if k2 == k) || (matches!(x.op, TOp::Get(k2) if k2 == k) && matches!(x.obs, Obs::Val(Some(_)))))
                .map(|x| if x.completed { x.t1 } else { i64::MAX })
                .chain(prefix_reads.iter().filter(|x| matches!(x.op, TOp::Get(k2) if k2 == k)).map(|x| x.t1))
                .max()
                .unwrap_or(i64::MAX);
            if latest_access != i64::MAX && r.t0 >= latest_access + d {
                viol.push(Violation { prop: "C06", sig: "sched:visible-past-tti".into(), detail: format!("T{}#{} get({k}) at reading >= {}ms returned a value whose latest possible access was at <= {latest_access}ms with tti {d}ms", r.thread, r.idx, r.t0), witness: String::new() });
            }
        }
    }
    // iteration beside writers: every key resident (and live) throughout is yielded
    if prog.cfg.cap.is_none() && prog.cfg.tti.is_none() {
        for r in all {
            if let (TOp::Iter, Obs::Items(items)) = (&r.op, &r.obs) {
                for k in 0..prog.cfg.nkeys {
                    let removed = all.iter().any(|x| matches!(x.op, TOp::Inv(k2) if k2 == k) || matches!(x.op, TOp::InvAll));
                    // an insert that completed before the iteration began and whose
                    // value cannot have expired before the iteration ended
                    let there = inserts.iter().any(|i| {
                        matches!(i.op, TOp::Ins(k2, _) if k2 == k) && after(r, i) && prog.cfg.ttl_ms().map(|d| r.t1 < i.t0 + d).unwrap_or(true)
                    });
                    if there && !removed && !items.iter().any(|(k2, _)| *k2 == k) {
                        viol.push(Violation { prop: "C16", sig: "sched:iter-misses-resident-key".into(), detail: format!("key {k} was resident during the whole iteration by T{} but was not yielded: {items:?}", r.thread), witness: String::new() });
                    }
                }
            }
        }
    }
    // an explicit sync() that nobody interleaved with must have drained the queues
    for r in all {
        if let (TOp::Sync, Obs::Items(left)) = (&r.op, &r.obs) {
            let field = |tag: u8| left.iter().find(|x| x.0 == tag).map(|x| x.1).unwrap_or(0);
            let (rq, wq, others_ran) = (field(255), field(254), field(252) != 0);
            if !others_ran && (rq > 0 || wq > 0) {
                let d = format!("T{}#{} sync() returned with {rq} read and {wq} write ops still queued although no other thread ran during the call", r.thread, r.idx);
                viol.push(Violation { prop: "C10", sig: "sched:sync-left-ops-queued".into(), detail: d.clone(), witness: String::new() });
                viol.push(Violation { prop: "C09", sig: "sched:sync-left-ops-queued".into(), detail: d, witness: String::new() });
            }
            // sync() is a barrier for everything queued before it was called: it waits for
            // a pass that is under way and then runs its own, which starts by applying
            // what the write log holds. Whatever is left when it returns was queued by
            // calls of other threads that had not returned when it began.
            let later: u64 = all
                .iter()
                .filter(|x| x.thread >= 0 && x.thread != r.thread && !(x.completed && x.end < r.start))
                .map(|x| match x.op {
                    TOp::Ins(..) | TOp::Inv(_) => 1,
                    TOp::Burst(n, _) => n as u64,
                    _ => 0,
                })
                .sum();
            if others_ran && wq as u64 > later {
                let d = format!(
                    "T{}#{} sync() returned with {wq} write ops still queued, but only {later} writes of other threads had not completed before it began: it did not apply what was pending when it was called",
                    r.thread, r.idx
                );
                viol.push(Violation { prop: "C10", sig: "sched:sync-is-not-a-barrier".into(), detail: d.clone(), witness: String::new() });
                viol.push(Violation { prop: "C09", sig: "sched:sync-is-not-a-barrier".into(), detail: d, witness: String::new() });
            }
        }
    }
    // values of one writer never go backwards for one reader
    for reader in 0..prog.threads.len() as i32 {
        for k in 0..prog.cfg.nkeys {
            let mut last: std::collections::HashMap<i32, usize> = std::collections::HashMap::new();
            for r in all.iter().filter(|r| r.thread == reader) {
                if let (TOp::Get(k2), Obs::Val(Some((id, _)))) = (&r.op, &r.obs) {
                    if *k2 != k {
                        continue;
                    }
                    if let Some(ins) = inserts.iter().find(|i| i.vid == *id) {
                        let e = last.entry(ins.thread).or_insert(0);
                        if ins.idx < *e {
                            viol.push(Violation { prop: "C02", sig: "sched:values-went-backwards".into(), detail: format!("T{reader} saw value {id} of writer T{} after a later value of the same writer", ins.thread), witness: String::new() });
                        }
                        *e = ins.idx;
                    }
                }
            }
        }
    }
}

/// After all threads stopped: quiesce, then final-state, structure, counters,
/// drop accounting and the sequential refill.
fn postlude(prog: &Program, sut: &mut Sut, all: &[Rec], viol: &mut Vec<Violation>, outcome: &mut u64) {
    let cfg = &prog.cfg;
    check_history(prog, all, viol);
    let r = catch_unwind(AssertUnwindSafe(|| {
        let mut snap = sut.snapshot();
        for _ in 0..4 {
            if snap.read_ops.is_empty() && snap.write_ops.is_empty() {
                break;
            }
            sut.apply(cfg, Op::Sync, 0);
            snap = sut.snapshot();
        }
        snap
    }));
    let snap = match r {
        Ok(s) => s,
        Err(p) => {
            viol.push(Violation { prop: "C08", sig: "sched:panic:postlude-sync".into(), detail: format!("sync() after the threads stopped panicked: {}", panic_msg(&p)), witness: String::new() });
            return;
        }
    };
    if !(snap.read_ops.is_empty() && snap.write_ops.is_empty()) {
        viol.push(Violation { prop: "C09", sig: "sched:queues-not-drained".into(), detail: "ops still queued after 4 sync() calls".into(), witness: String::new() });
        return;
    }
    if snap.sync_running {
        viol.push(Violation { prop: "C09", sig: "sched:maintenance-flag-stuck".into(), detail: "is_sync_running is still set after all threads stopped: no housekeeping will ever run again".into(), witness: String::new() });
    }
    {
        use std::hash::{Hash, Hasher};
        let mut h = std::collections::hash_map::DefaultHasher::new();
        h.write_u64(*outcome);
        for e in &snap.entries {
            (e.key, e.value).hash(&mut h);
        }
        *outcome = h.finish();
    }
    // structure
    viol.extend(walk(cfg, &snap, true));
    // counters
    let total: u64 = snap.entries.iter().map(|e| e.weight as u64).sum();
    if snap.entry_count != snap.entries.len() as u64 || snap.weighted_size != total {
        viol.push(Violation {
            prop: "C10",
            sig: "sched:counters!=held".into(),
            detail: format!("after quiescence entry_count()={} weighted_size()={} but the map holds {} entries weighing {total}", snap.entry_count, snap.weighted_size, snap.entries.len()),
            witness: String::new(),
        });
    }
    if let Some(cap) = cfg.cap {
        if total > cap {
            viol.push(Violation { prop: "C04", sig: "sched:resident-weight-above-capacity".into(), detail: format!("after quiescence resident weight {total} > max_capacity {cap}"), witness: String::new() });
        }
    }
    // drops
    let (lk, lv) = tracker().live();
    if lk != snap.entries.len() as i64 || lv != snap.entries.len() as i64 {
        viol.push(Violation { prop: "C11", sig: "sched:live-objects!=residents".into(), detail: format!("after quiescence {lk} live keys and {lv} live values for {} resident entries", snap.entries.len()), witness: String::new() });
    }
    // final state: each key absent or the value of a write nothing follows in real time
    let inserts: Vec<&Rec> = all.iter().filter(|r| matches!(r.op, TOp::Ins(..))).collect();
    let has_burst = prog.threads.iter().flatten().any(|o| o.is_burst());
    for e in snap.entries.iter().filter(|_| !has_burst) {
        let k = e.key as u8;
        match inserts.iter().find(|i| i.vid as u64 == e.value) {
            None => viol.push(Violation { prop: "C02", sig: "sched:final-phantom".into(), detail: format!("after all threads stopped key {k} holds value {} which no insert wrote", e.value), witness: String::new() }),
            Some(ins) => {
                if let Some(by) = superseded(all, ins, k, u64::MAX) {
                    if !by.contains("invall") {
                        viol.push(Violation { prop: "C02", sig: "sched:final-not-last-write".into(), detail: format!("after all threads stopped key {k} holds value {} although {by} came after its insert", e.value), witness: String::new() });
                    }
                }
            }
        }
    }
    // a last write that was an insert and cannot have been evicted must be there
    if !prog.threads.iter().flatten().any(|o| o.is_burst()) {
        let total_w: u64 = inserts.iter().map(|i| if let TOp::Ins(_, w) = i.op { cfg.pw(crate::sut::weight_of(w)) as u64 } else { 0 }).sum();
        let no_pressure = cfg.cap.map(|c| total_w <= c).unwrap_or(true);
        let invalls: Vec<&Rec> = all.iter().filter(|r| matches!(r.op, TOp::InvAll)).collect();
        let shortest: Option<i64> = [cfg.ttl_ms(), cfg.tti_ms()].iter().flatten().cloned().min();
        let end_reading = sut.clock().elapsed().as_millis() as i64;
        if no_pressure {
            for k in 0..cfg.nkeys {
                let writes: Vec<&Rec> = all.iter().filter(|r| r.op.writes_key() == Some(k)).collect();
                if writes.is_empty() {
                    continue;
                }
                // a write is final if no other write to k starts after it ended
                let finals: Vec<&&Rec> = writes.iter().filter(|w| !writes.iter().any(|x| after(x, w))).collect();
                // ... and every invalidate_all had returned before it began ("anything
                // inserted or updated after the call remains retrievable")
                // ... and, with ttl / tti, none of them can have expired by now
                let all_inserts = !finals.is_empty()
                    && finals.iter().all(|w| matches!(w.op, TOp::Ins(..)) && invalls.iter().all(|ia| after(w, ia)) && shortest.map(|d| end_reading < w.t0 + d).unwrap_or(true));
                let held = snap.entries.iter().find(|e| e.key as u8 == k).map(|e| e.value);
                if all_inserts && held.is_none() {
                    viol.push(Violation {
                        prop: "C02",
                        sig: "sched:final-value-lost".into(),
                        detail: format!("every write of key {k} that nothing follows is an insert and no capacity pressure existed, but the key is absent after all threads stopped"),
                        witness: String::new(),
                    });
                    viol.push(Violation { prop: "C03", sig: "sched:final-value-lost".into(), detail: format!("key {k} lost without capacity pressure, expiry or invalidation"), witness: String::new() });
                    if !invalls.is_empty() || writes.iter().any(|w| matches!(w.op, TOp::Inv(_))) {
                        viol.push(Violation { prop: "C07", sig: "sched:final-value-lost".into(), detail: format!("key {k} was inserted after every invalidation had returned, but is absent after all threads stopped"), witness: String::new() });
                    }
                }
            }
        }
    }
    // C03: sequential refill after quiescence
    if let Some(cap) = cfg.cap {
        if cap >= 1 && cap <= 8 {
            let r = catch_unwind(AssertUnwindSafe(|| {
                for k in 0..cfg.nkeys {
                    sut.apply(cfg, Op::Inv(k), 0);
                }
                sut.apply(cfg, Op::Sync, 0);
                let base = 10u8;
                for i in 0..cap as u8 {
                    sut.apply(cfg, Op::Ins(base + i, 1), 9000 + i as u32);
                    sut.apply(cfg, Op::Sync, 0);
                }
                let s = sut.snapshot();
                (0..cap as u8).filter(|i| !s.entries.iter().any(|e| e.key as u8 == base + i)).collect::<Vec<u8>>()
            }));
            match r {
                Ok(missing) if !missing.is_empty() => viol.push(Violation {
                    prop: "C03",
                    sig: "sched:refill-not-retained".into(),
                    detail: format!("after the threads quiesced and every key was invalidated, a sequential refill of {cap} fresh unit-weight keys lost {} of them", missing.len()),
                    witness: String::new(),
                }),
                Err(p) => viol.push(Violation { prop: "C08", sig: "sched:panic:refill".into(), detail: panic_msg(&p), witness: String::new() }),
                _ => {}
            }
        }
    }
}

// ---------------------------------------------------------------------------
// Exploration
// ---------------------------------------------------------------------------

pub struct ProgResult {
    pub schedules: u64,
    pub max_points: usize,
    pub outcomes: usize,
    pub violations: Vec<Violation>,
    pub viol_total: u64,
    pub capped: bool,
    pub machinery: Option<String>,
}

pub fn witness(prog: &Program, choices: &[(u16, u16)]) -> String {
    format!("schedx|{}|{}", prog.text(), choices.iter().map(|c| format!("{}/{}", c.0, c.1)).collect::<Vec<_>>().join(","))
}

pub fn explore(prog: &Program, bound: u32, max_schedules: u64, deadline: Instant, journal: &crate::seqx::Journal) -> ProgResult {
    let hasher = make_hasher(prog.cfg.hash);
    let mut res = ProgResult { schedules: 0, max_points: 0, outcomes: 0, violations: vec![], viol_total: 0, capped: false, machinery: None };
    let mut outcomes: HashSet<u64> = HashSet::new();
    let mut sigs: HashSet<(String, String)> = HashSet::new();
    let prune = crate::seqx::Prune::from_env();
    let max_events = 40000 + prog.threads.iter().flatten().map(|o| if let TOp::Burst(n, _) | TOp::GBurst(n, _) | TOp::FBurst(n, _) | TOp::FGBurst(n, _) = o { *n as u64 * 40 } else { 0 }).sum::<u64>();
    // determinism: the first schedule twice
    journal.write(&witness(prog, &[]));
    let a = run_once(prog, &hasher, &[], max_events);
    let b = run_once(prog, &hasher, &[], max_events);
    if a.trace != b.trace || a.outcome != b.outcome {
        res.machinery = Some(format!("the default schedule is not deterministic for {}", prog.text()));
        return res;
    }
    let mut stack: Vec<Vec<(u16, u16)>> = vec![vec![]];
    while let Some(prefix) = stack.pop() {
        if res.schedules >= max_schedules || Instant::now() > deadline {
            res.capped = true;
            break;
        }
        // crash journal: if the process dies in this execution, this is the witness
        journal.write(&witness(prog, &prefix));
        let x = run_once(prog, &hasher, &prefix, max_events);
        res.schedules += 1;
        if let Some(Abort::Divergence(m)) = &x.abort {
            res.machinery = Some(format!("{m} while replaying {}", witness(prog, &prefix)));
            return res;
        }
        res.max_points = res.max_points.max(x.trace.len());
        outcomes.insert(x.outcome);
        let full: Vec<(u16, u16)> = x.trace.iter().map(|c| (c.chosen, c.n_enabled)).collect();
        let mut stop = false;
        for mut v in x.viol {
            res.viol_total += 1;
            if prune.stops(&v) {
                stop = true;
            }
            if sigs.insert((v.prop.to_string(), v.sig.clone())) {
                v.witness = witness(prog, &full);
                res.violations.push(v);
            }
        }
        let _ = stop;
        // alternatives at every later choice point within the preemption budget
        let mut cost = 0u32;
        for (i, cp) in x.trace.iter().enumerate() {
            if i >= prefix.len() {
                for alt in 1..cp.n_enabled {
                    let c = cost + if cp.running_enabled { 1 } else { 0 };
                    if c <= bound {
                        let mut p: Vec<(u16, u16)> = full[..i].to_vec();
                        p.push((alt, cp.n_enabled));
                        stack.push(p);
                    }
                }
            }
            if cp.running_enabled && cp.chosen != 0 {
                cost += 1;
            }
        }
    }
    res.outcomes = outcomes.len();
    res
}

// ---------------------------------------------------------------------------
// Program families
// ---------------------------------------------------------------------------

fn seqs(alpha: &[TOp], max_len: usize) -> Vec<Vec<TOp>> {
    let mut out: Vec<Vec<TOp>> = Vec::new();
    let mut cur: Vec<Vec<TOp>> = vec![vec![]];
    for _ in 0..max_len {
        let mut next = Vec::new();
        for s in &cur {
            for o in alpha {
                let mut n = s.clone();
                n.push(*o);
                next.push(n);
            }
        }
        out.extend(next.iter().cloned());
        cur = next;
    }
    out
}

fn conflicting(a: &[TOp], b: &[TOp]) -> bool {
    let global = |o: &TOp| matches!(o, TOp::InvAll | TOp::Sync | TOp::Iter | TOp::IterHoldGet(_));
    let key = |o: &TOp| match *o {
        TOp::Ins(k, _) | TOp::Get(k) | TOp::Inv(k) | TOp::Con(k) => Some(k),
        _ => None,
    };
    let writes = |s: &[TOp]| s.iter().any(|o| matches!(o, TOp::Ins(..) | TOp::Inv(_) | TOp::InvAll));
    if !(writes(a) || writes(b)) {
        return false;
    }
    a.iter().any(|x| global(x) || b.iter().any(|y| global(y) || (key(x).is_some() && key(x) == key(y))))
}

pub fn family(name: &str, tier: &str) -> Vec<Program> {
    let thorough = tier == "thorough";
    let base = |cap: Option<u64>, tti: Option<u32>| Cfg {
        kind: Kind::S,
        cap,
        weigher: false,
        ttl: None,
        tti,
        hash: HashKind::SameShard,
        tick_ms: 1000,
        beyond: true,
        autosync: false,
        nkeys: 2,
        ..Cfg::default()
    };
    let mut out = Vec::new();
    match name {
        // per-key coherence: 2 threads x <= 2 ops, forced to collide on key 0
        "c02" => {
            let alpha = [TOp::Ins(0, 1), TOp::Get(0), TOp::Inv(0), TOp::Ins(1, 1), TOp::InvAll, TOp::Sync];
            let ss = seqs(&alpha, 2);
            let prefixes: Vec<Vec<Op>> = vec![vec![], vec![Op::Ins(0, 1), Op::Sync], vec![Op::Ins(0, 1), Op::Sync, Op::Ins(0, 1), Op::Get(0)]];
            let caps: Vec<Option<u64>> = if thorough { vec![None, Some(1), Some(2)] } else { vec![None, Some(1)] };
            for cap in caps {
                for (pi, pre) in prefixes.iter().enumerate() {
                    if !thorough && pi == 2 && cap.is_none() {
                        continue;
                    }
                    for (i, a) in ss.iter().enumerate() {
                        for b in ss.iter().skip(i) {
                            if !conflicting(a, b) {
                                continue;
                            }
                            if !thorough && a.len() + b.len() > 3 {
                                continue;
                            }
                            out.push(Program { cfg: base(cap, None), prefix: pre.clone(), threads: vec![a.clone(), b.clone()] });
                        }
                    }
                }
            }
            // curated 3-thread programs
            let three: Vec<Vec<Vec<TOp>>> = vec![
                vec![vec![TOp::Ins(0, 1)], vec![TOp::Ins(0, 1)], vec![TOp::Get(0), TOp::Get(0)]],
                vec![vec![TOp::Ins(0, 1)], vec![TOp::Inv(0)], vec![TOp::Get(0), TOp::Sync]],
                vec![vec![TOp::Ins(0, 1), TOp::Ins(0, 1)], vec![TOp::Get(0), TOp::Get(0)], vec![TOp::Sync]],
                vec![vec![TOp::Ins(0, 1)], vec![TOp::Ins(1, 1)], vec![TOp::Sync, TOp::Get(0)]],
            ];
            for t in three {
                for cap in [None, Some(1u64)] {
                    out.push(Program { cfg: base(cap, None), prefix: vec![Op::Ins(0, 1), Op::Sync], threads: t.clone() });
                }
            }
            // three threads: maintenance against two writers of its victim (2 preemptions of
            // the maintenance thread; the final-state clause judges)
            for pre in [
                vec![Op::Ins(0, 1), Op::Sync, Op::Get(1), Op::Ins(1, 1)],
                vec![Op::Ins(0, 1), Op::Sync, Op::Get(1), Op::Ins(1, 1), Op::Ins(0, 1)],
            ] {
                for th in [
                    vec![vec![TOp::Sync], vec![TOp::Ins(0, 1)], vec![TOp::Ins(0, 1)]],
                    vec![vec![TOp::Sync], vec![TOp::Inv(0), TOp::Ins(0, 1)], vec![TOp::Ins(0, 1)]],
                ] {
                    out.push(Program { cfg: base(Some(1), None), prefix: pre.clone(), threads: th.clone() });
                }
            }
            // maintenance evicting / rejecting an entry while writers update the same key:
            // the prelude leaves a popular newcomer and an update of its victim queued
            for th in [
                vec![vec![TOp::Sync], vec![TOp::Ins(0, 1), TOp::Get(0)]],
                vec![vec![TOp::Sync], vec![TOp::Inv(0), TOp::Ins(0, 1), TOp::Get(0)]],
                vec![vec![TOp::Sync, TOp::Get(0)], vec![TOp::Ins(0, 1)]],
            ] {
                out.push(Program { cfg: base(Some(1), None), prefix: vec![Op::Ins(0, 1), Op::Sync, Op::Get(1), Op::Ins(0, 1), Op::Ins(1, 1)], threads: th.clone() });
                out.push(Program { cfg: base(Some(1), None), prefix: vec![Op::Ins(0, 1), Op::Sync, Op::Get(1), Op::Get(1), Op::Ins(1, 1)], threads: th.clone() });
                out.push(Program { cfg: base(Some(1), None), prefix: vec![Op::Ins(0, 1), Op::Sync, Op::Get(1), Op::Ins(1, 1), Op::Ins(0, 1)], threads: th.clone() });
            }
        }
        // the same idea with a weigher (weight-changing updates racing maintenance)
        "c02w" => {
            let alpha = [TOp::Ins(0, 1), TOp::Ins(0, 2), TOp::Get(0), TOp::Inv(0), TOp::Ins(1, 1), TOp::Sync];
            let ss = seqs(&alpha, 2);
            let prefixes: Vec<Vec<Op>> = vec![vec![Op::Ins(0, 1), Op::Sync], vec![Op::Ins(0, 2), Op::Sync, Op::Get(1), Op::Ins(1, 1)]];
            for pre in &prefixes {
                for (i, a) in ss.iter().enumerate() {
                    for b in ss.iter().skip(i) {
                        if !conflicting(a, b) || a.len() + b.len() > if thorough { 4 } else { 3 } {
                            continue;
                        }
                        let mut c = base(Some(2), None);
                        c.weigher = true;
                        out.push(Program { cfg: c, prefix: pre.clone(), threads: vec![a.clone(), b.clone()] });
                    }
                }
            }
        }
        // (c02w continued) curated: excess eviction / watermark purge racing writers of the
        // entry being removed, with weights that make a wrong subtraction visible
        "c02x" => {
            let mk = |pre: Vec<Op>, th: Vec<Vec<TOp>>, cap: Option<u64>| {
                let mut c = base(cap, None);
                c.weigher = true;
                Program { cfg: c, prefix: pre, threads: th }
            };
            // an update grew key 1: the excess eviction takes key 0 while writers update key 0
            out.push(mk(vec![Op::Ins(0, 1), Op::Ins(1, 1), Op::Sync, Op::Ins(1, 2)], vec![vec![TOp::Sync], vec![TOp::Ins(0, 1)], vec![TOp::Ins(0, 1)]], Some(2)));
            out.push(mk(vec![Op::Ins(0, 1), Op::Ins(1, 1), Op::Sync, Op::Ins(1, 2)], vec![vec![TOp::Sync], vec![TOp::Ins(0, 1), TOp::Get(0)]], Some(2)));
            out.push(mk(vec![Op::Ins(0, 1), Op::Ins(1, 1), Op::Sync, Op::Ins(1, 2)], vec![vec![TOp::Sync], vec![TOp::Inv(0), TOp::Ins(0, 1)], vec![TOp::Ins(0, 1)]], Some(2)));
            // the same after the clock moved (timestamps of the writers' updates differ from
            // the one maintenance peeked)
            let pre_adv = vec![Op::Ins(0, 1), Op::Ins(1, 1), Op::Sync, Op::Ins(1, 2), Op::Adv(1)];
            out.push(mk(pre_adv.clone(), vec![vec![TOp::Sync], vec![TOp::Ins(0, 1)], vec![TOp::Ins(0, 1)]], Some(2)));
            out.push(mk(pre_adv.clone(), vec![vec![TOp::Sync], vec![TOp::Ins(0, 1)], vec![TOp::Inv(0)]], Some(2)));
            out.push(mk(pre_adv.clone(), vec![vec![TOp::Sync], vec![TOp::Ins(0, 1), TOp::Get(0)]], Some(2)));
            // a queued re-weigh of an entry that the watermark purge removes meanwhile
            out.push(mk(vec![Op::Ins(0, 1), Op::Sync, Op::Adv(1)], vec![vec![TOp::Ins(0, 2)], vec![TOp::Adv(1), TOp::InvAll, TOp::Ins(1, 2), TOp::Sync]], None));
            out.push(mk(vec![Op::Ins(0, 2), Op::Sync, Op::Adv(1)], vec![vec![TOp::Ins(0, 1)], vec![TOp::Adv(1), TOp::InvAll, TOp::Ins(1, 1), TOp::Sync]], None));
            // an explicit sync() beside a thread that holds the housekeeping flag (a get in
            // the "within" regime): the caller's earlier writes must be applied when it returns
            for cap in [Some(1u64), Some(3)] {
                let mut c = base(cap, None);
                c.beyond = false;
                c.nkeys = 3;
                out.push(Program { cfg: c.clone(), prefix: vec![Op::Ins(0, 1)], threads: vec![vec![TOp::Get(0)], vec![TOp::Ins(1, 1), TOp::Sync]] });
                out.push(Program { cfg: c.clone(), prefix: vec![Op::Ins(0, 1)], threads: vec![vec![TOp::Ins(2, 1)], vec![TOp::Ins(1, 1), TOp::Sync]] });
            }
            // a writer re-inserting right after invalidate_all while maintenance purges
            for cap in [None, Some(2u64)] {
                out.push(mk(vec![Op::Ins(0, 1), Op::Sync, Op::Adv(1), Op::InvAll], vec![vec![TOp::Sync], vec![TOp::Ins(0, 1), TOp::Get(0)]], cap));
                out.push(mk(vec![Op::Ins(0, 1), Op::Ins(1, 1), Op::Sync, Op::Adv(1), Op::InvAll], vec![vec![TOp::Sync, TOp::Get(1)], vec![TOp::Ins(1, 1)]], cap));
                // a reader of the invalidated (not yet purged) entry against a writer that
                // re-inserts the key (the entry info, hence the timestamps, is shared)
                out.push(mk(vec![Op::Ins(0, 1), Op::Sync, Op::Adv(1), Op::InvAll], vec![vec![TOp::Get(0)], vec![TOp::Ins(0, 1)]], cap));
                out.push(mk(vec![Op::Ins(0, 1), Op::Sync, Op::Adv(1), Op::InvAll], vec![vec![TOp::Con(0), TOp::Get(0)], vec![TOp::Ins(0, 1)]], cap));
            }
            // an invalidate that has taken the key out of the map but not queued its Remove
            // op yet, while another thread inserts the key again: the leftover node of the
            // old entry sits in the queues beside the new entry
            // (a) ... and a pass has to evict for size (the node is at the LRU front)
            out.push(mk(vec![Op::Ins(0, 1), Op::Ins(1, 1), Op::Sync], vec![vec![TOp::Inv(0)], vec![TOp::Adv(1), TOp::Ins(0, 1), TOp::Ins(1, 2), TOp::Sync]], Some(3)));
            out.push(mk(vec![Op::Ins(0, 1), Op::Ins(1, 1), Op::Sync], vec![vec![TOp::Inv(0)], vec![TOp::Ins(0, 1), TOp::Ins(1, 2), TOp::Sync]], Some(3)));
            // (b) ... and the old entry's ttl deadline passes while the new one is alive
            {
                let mut c = base(None, None);
                c.ttl = Some(2);
                out.push(Program { cfg: c.clone(), prefix: vec![Op::Ins(0, 1), Op::Sync], threads: vec![vec![TOp::Inv(0)], vec![TOp::Adv(1), TOp::Ins(0, 1), TOp::Adv(1), TOp::Sync, TOp::Get(0)]] });
                let mut c2 = c.clone();
                c2.tti = Some(2);
                c2.ttl = None;
                out.push(Program { cfg: c2, prefix: vec![Op::Ins(0, 1), Op::Sync], threads: vec![vec![TOp::Inv(0)], vec![TOp::Adv(1), TOp::Ins(0, 1), TOp::Adv(1), TOp::Sync, TOp::Get(0)]] });
            }
            // (d) both halves open at once in the regime where every call first runs the
            // pending maintenance: the invalidate has unmapped the expired key, the insert
            // has mapped a new entry (no nodes yet), and the invalidate's own call runs
            // the pass before it queues its Remove op
            for (ttl, tti) in [(Some(2u32), None), (Some(2), Some(2))] {
                let mut c = base(None, None);
                c.ttl = ttl;
                c.tti = tti;
                c.beyond = false;
                // (200 ms ticks: two of them expire the entry and stay inside the 500 ms
                // window in which every call runs the pending maintenance)
                c.tick_ms = 200;
                out.push(Program { cfg: c.clone(), prefix: vec![Op::Ins(0, 1), Op::Sync, Op::Adv(2)], threads: vec![vec![TOp::Inv(0)], vec![TOp::Ins(0, 1)]] });
                out.push(Program { cfg: c.clone(), prefix: vec![Op::Ins(0, 1), Op::Ins(1, 1), Op::Sync, Op::Adv(2)], threads: vec![vec![TOp::Inv(0), TOp::Get(1)], vec![TOp::Ins(0, 1)]] });
            }
            // (c) a purge that has found the front entry expired, against a writer that
            // refreshes exactly that entry before the purge removes it
            for (ttl, tti) in [(Some(2u32), None), (None, Some(2u32)), (Some(2), Some(3))] {
                let mut c = base(None, None);
                c.ttl = ttl;
                c.tti = tti;
                out.push(Program { cfg: c.clone(), prefix: vec![Op::Ins(0, 1), Op::Sync, Op::Adv(2)], threads: vec![vec![TOp::Sync], vec![TOp::Ins(0, 1), TOp::Get(0)]] });
                out.push(Program { cfg: c.clone(), prefix: vec![Op::Ins(0, 1), Op::Ins(1, 1), Op::Sync, Op::Adv(2)], threads: vec![vec![TOp::Sync, TOp::Get(1)], vec![TOp::Ins(1, 1)]] });
            }
        }
        // ... and with time-to-idle and a moving clock
        "c02t" => {
            let alpha = [TOp::Ins(0, 1), TOp::Get(0), TOp::Adv(1), TOp::Inv(0), TOp::Sync];
            let ss = seqs(&alpha, 2);
            for (i, a) in ss.iter().enumerate() {
                for b in ss.iter().skip(i) {
                    let uses_clock = a.iter().chain(b.iter()).any(|o| matches!(o, TOp::Adv(_)));
                    if !(conflicting(a, b) || uses_clock) || a.len() + b.len() > if thorough { 4 } else { 3 } {
                        continue;
                    }
                    for cap in [None, Some(1u64)] {
                        out.push(Program { cfg: base(cap, Some(2)), prefix: vec![Op::Ins(0, 1), Op::Sync, Op::Adv(1)], threads: vec![a.clone(), b.clone()] });
                    }
                }
            }
        }
        // systematic product: configurations x preludes (non-initial states with work
        // queued for maintenance) x conflicting thread programs from one alphabet, plus
        // "maintenance against two writers" with three threads
        "gen" => {
            struct G {
                cap: Option<u64>,
                weigher: bool,
                ttl: Option<u32>,
                tti: Option<u32>,
            }
            let gs = [
                G { cap: None, weigher: false, ttl: None, tti: None },
                G { cap: Some(1), weigher: false, ttl: None, tti: None },
                G { cap: Some(2), weigher: true, ttl: None, tti: None },
                G { cap: None, weigher: false, ttl: None, tti: Some(2) },
                G { cap: Some(2), weigher: false, ttl: Some(2), tti: None },
                G { cap: None, weigher: true, ttl: None, tti: None },
            ];
            for g in &gs {
                let w2 = if g.weigher { 2 } else { 1 };
                let expiry = g.ttl.is_some() || g.tti.is_some();
                let mut preludes: Vec<Vec<Op>> = vec![
                    vec![],
                    vec![Op::Ins(0, 1), Op::Sync],
                    vec![Op::Ins(0, 1), Op::Sync, Op::Ins(0, 1), Op::Get(0)],
                    vec![Op::Ins(0, 1), Op::Sync, Op::Adv(1), Op::InvAll],
                ];
                if g.cap.is_some() {
                    preludes.push(vec![Op::Ins(0, 1), Op::Sync, Op::Get(1), Op::Ins(1, 1)]);
                    preludes.push(vec![Op::Ins(0, 1), Op::Sync, Op::Get(1), Op::Ins(1, 1), Op::Ins(0, 1)]);
                }
                if g.weigher {
                    preludes.push(vec![Op::Ins(0, 1), Op::Ins(1, 1), Op::Sync, Op::Ins(1, 2), Op::Adv(1)]);
                    preludes.push(vec![Op::Ins(0, 2), Op::Sync, Op::Ins(0, 1)]);
                }
                if expiry {
                    preludes.push(vec![Op::Ins(0, 1), Op::Ins(1, 1), Op::Sync, Op::Adv(3)]);
                    preludes.push(vec![Op::Ins(0, 1), Op::Sync, Op::Adv(1), Op::Get(0), Op::Adv(1)]);
                }
                let mut alpha = vec![TOp::Ins(0, 1), TOp::Get(0), TOp::Inv(0), TOp::Ins(1, 1), TOp::InvAll, TOp::Sync];
                if g.weigher {
                    alpha.push(TOp::Ins(0, w2));
                }
                if expiry {
                    alpha.push(TOp::Adv(1));
                }
                let ss = seqs(&alpha, 2);
                let max_total = if thorough { 3 } else { 2 };
                let mk = |pre: &Vec<Op>, th: Vec<Vec<TOp>>| {
                    let mut c = base(g.cap, g.tti);
                    c.ttl = g.ttl;
                    c.weigher = g.weigher;
                    Program { cfg: c, prefix: pre.clone(), threads: th }
                };
                for pre in &preludes {
                    for (i, a) in ss.iter().enumerate() {
                        for b in ss.iter().skip(i) {
                            let uses_clock = a.iter().chain(b.iter()).any(|o| matches!(o, TOp::Adv(_)));
                            if a.len() + b.len() > max_total || !(conflicting(a, b) || (uses_clock && expiry)) {
                                continue;
                            }
                            out.push(mk(pre, vec![a.clone(), b.clone()]));
                        }
                    }
                    // maintenance against two writers (thorough tier)
                    if !thorough {
                        continue;
                    }
                    let singles = [TOp::Ins(0, 1), TOp::Inv(0), TOp::Get(0), TOp::Ins(1, 1), TOp::Ins(0, w2)];
                    for (i, a) in singles.iter().enumerate() {
                        for b in singles.iter().skip(i) {
                            if !matches!(a, TOp::Ins(..) | TOp::Inv(_)) && !matches!(b, TOp::Ins(..) | TOp::Inv(_)) {
                                continue;
                            }
                            out.push(mk(pre, vec![vec![TOp::Sync], vec![*a], vec![*b]]));
                        }
                    }
                }
            }
        }
        // invalidation against readers / writers, incl. clock movement
        "c07" => {
            let progs: Vec<(Vec<Op>, Vec<Vec<TOp>>)> = vec![
                (vec![Op::Ins(0, 1), Op::Sync], vec![vec![TOp::Inv(0)], vec![TOp::Get(0), TOp::Get(0)]]),
                (vec![Op::Ins(0, 1), Op::Sync], vec![vec![TOp::Inv(0), TOp::Get(0)], vec![TOp::Ins(0, 1)]]),
                (vec![Op::Ins(0, 1), Op::Sync, Op::Adv(1)], vec![vec![TOp::InvAll, TOp::Get(0)], vec![TOp::Get(0), TOp::Get(0)]]),
                (vec![Op::Ins(0, 1), Op::Sync, Op::Adv(1)], vec![vec![TOp::InvAll], vec![TOp::Adv(1), TOp::Ins(0, 1), TOp::Get(0)]]),
                (vec![], vec![vec![TOp::InvAll], vec![TOp::Adv(1), TOp::Ins(0, 1), TOp::Adv(1), TOp::InvAll, TOp::Get(0)]]),
                (vec![Op::Ins(0, 1), Op::Sync, Op::Adv(1)], vec![vec![TOp::InvAll], vec![TOp::Adv(1), TOp::InvAll], vec![TOp::Get(0)]]),
                (vec![Op::Ins(0, 1), Op::Get(0)], vec![vec![TOp::Inv(0), TOp::Ins(0, 1)], vec![TOp::Sync, TOp::Get(0)]]),
                // a hit recorded around an invalidate_all at the same clock reading, applied later
                (vec![Op::Ins(0, 1), Op::Sync, Op::Adv(1)], vec![vec![TOp::InvAll], vec![TOp::Get(0), TOp::Sync, TOp::Get(0)]]),
                (vec![Op::Ins(0, 1), Op::Sync, Op::Adv(1)], vec![vec![TOp::InvAll, TOp::Sync, TOp::Get(0)], vec![TOp::Get(0)]]),
            ];
            for (pre, th) in progs {
                for cap in [None, Some(2u64)] {
                    out.push(Program { cfg: base(cap, None), prefix: pre.clone(), threads: th.clone() });
                }
            }
        }
        // termination: sync racing try_sync, iterator holders, back-pressure
        "c09" => {
            let progs: Vec<(Option<u64>, Vec<Op>, Vec<Vec<TOp>>)> = vec![
                (Some(1), vec![Op::Ins(0, 1)], vec![vec![TOp::Sync, TOp::Ins(1, 1)], vec![TOp::Get(0), TOp::Sync]]),
                (Some(1), vec![], vec![vec![TOp::Ins(0, 1), TOp::Sync], vec![TOp::Ins(1, 1), TOp::Sync]]),
                (None, vec![Op::Ins(0, 1), Op::Sync], vec![vec![TOp::Iter], vec![TOp::Get(0), TOp::Con(0)]]),
                (Some(2), vec![Op::Ins(0, 1), Op::Sync], vec![vec![TOp::Iter], vec![TOp::Get(1), TOp::Sync]]),
                // the statement allows get/contains_key while holding an iterator
                (Some(0), vec![Op::Ins(0, 1)], vec![vec![TOp::IterHoldGet(0)]]),
                (Some(1), vec![Op::Ins(0, 1), Op::Sync, Op::Ins(1, 1)], vec![vec![TOp::IterHoldGet(0)], vec![TOp::Get(1)]]),
                (None, vec![Op::Ins(0, 1), Op::Sync], vec![vec![TOp::IterHoldGet(0)], vec![TOp::Get(0)]]),
            ];
            for (cap, pre, th) in progs {
                for beyond in [true, false] {
                    let mut c = base(cap, None);
                    c.beyond = beyond;
                    out.push(Program { cfg: c, prefix: pre.clone(), threads: th.clone() });
                }
            }
            // expiry purge racing an invalidation of the next expired key (the purge loops
            // skip a node whose key is gone; they must stay bounded)
            for (ttl, tti) in [(Some(2u32), None), (None, Some(2u32)), (Some(2), Some(3))] {
                let mut c = base(None, tti);
                c.ttl = ttl;
                c.nkeys = 3;
                let pre = vec![Op::Ins(0, 1), Op::Ins(1, 1), Op::Ins(2, 1), Op::Sync, Op::Adv(3)];
                out.push(Program { cfg: c.clone(), prefix: pre.clone(), threads: vec![vec![TOp::Sync], vec![TOp::Inv(1)]] });
                out.push(Program { cfg: c.clone(), prefix: pre.clone(), threads: vec![vec![TOp::Sync], vec![TOp::Inv(1), TOp::Inv(2)]] });
                out.push(Program { cfg: c.clone(), prefix: pre.clone(), threads: vec![vec![TOp::Get(0)], vec![TOp::Inv(0), TOp::Inv(1)]] });
            }
            // maintenance racing writers of the entry it is about to evict (weigher: an
            // update grows an admitted entry above the capacity)
            for th in [
                vec![vec![TOp::Ins(0, 3), TOp::Sync], vec![TOp::Inv(0)]],
                vec![vec![TOp::Ins(0, 3), TOp::Sync], vec![TOp::Ins(0, 1)]],
                vec![vec![TOp::Ins(0, 3), TOp::Sync], vec![TOp::Ins(1, 1), TOp::Inv(0)]],
            ] {
                for beyond in [true, false] {
                    let mut c = base(Some(2), None);
                    c.weigher = true;
                    c.beyond = beyond;
                    out.push(Program { cfg: c, prefix: vec![Op::Ins(0, 1), Op::Sync], threads: th.clone() });
                }
            }
            // single-thread bursts far beyond the write queue, both housekeeping regimes
            let wl = mini_moka::verif::constants().write_log_size as u16;
            for n in [wl + 1, wl + 65, (wl + 65).max(800), (wl + 65).max(2000)] {
                for keys in [1u8, 2, 5] {
                    for cap in [Some(0u64), Some(1), Some(10)] {
                        for beyond in [true, false] {
                            let mut c = base(cap, None);
                            c.beyond = beyond;
                            c.nkeys = 5;
                            out.push(Program { cfg: c, prefix: vec![], threads: vec![vec![TOp::Burst(n, keys)]] });
                        }
                    }
                }
            }
            // back-pressure while another thread holds the housekeeping flag: it entered
            // maintenance through try_sync (a get in the "within" regime) and is preempted
            // there while the writer fills the queue
            for cap in [Some(1u64), Some(10)] {
                let mut c = base(cap, None);
                c.nkeys = 5;
                c.beyond = false;
                out.push(Program { cfg: c, prefix: vec![Op::Ins(0, 1)], threads: vec![vec![TOp::Get(0)], vec![TOp::Burst(386, 3), TOp::Ins(1, 1)]] });
            }
            // ... the same after the clock left the periodic-sync window (only the queue
            // length can trigger housekeeping then), and an explicit sync() beside a thread
            // that holds the housekeeping flag
            for cap in [Some(1u64), Some(10)] {
                let mut c = base(cap, None);
                c.nkeys = 5;
                c.beyond = false;
                out.push(Program { cfg: c.clone(), prefix: vec![Op::Ins(0, 1)], threads: vec![vec![TOp::Get(0)], vec![TOp::Adv(1), TOp::Burst(386, 3), TOp::Ins(1, 1)]] });
                out.push(Program { cfg: c.clone(), prefix: vec![Op::Ins(0, 1)], threads: vec![vec![TOp::Get(0)], vec![TOp::Ins(1, 1), TOp::Sync]] });
                out.push(Program { cfg: c.clone(), prefix: vec![Op::Ins(0, 1)], threads: vec![vec![TOp::Ins(2, 1)], vec![TOp::Ins(1, 1), TOp::Sync, TOp::Get(1)]] });
            }
            // an insert that ran the maintenance itself while another thread refilled the
            // whole write log behind it: it must run (or wait for) housekeeping again
            let wl = mini_moka::verif::constants().write_log_size as u16;
            for n in [wl, wl + 6] {
                let mut c = base(Some(10), None);
                c.nkeys = 5;
                c.beyond = false;
                out.push(Program { cfg: c, prefix: vec![], threads: vec![vec![TOp::Ins(0, 1)], vec![TOp::Burst(n, 5)]] });
            }
            // back-pressure with a second thread inside maintenance
            for cap in [Some(1u64), Some(10)] {
                let mut c = base(cap, None);
                c.nkeys = 5;
                out.push(Program { cfg: c, prefix: vec![Op::Ins(0, 1)], threads: vec![vec![TOp::Sync], vec![TOp::Burst(386, 3), TOp::Ins(1, 1)]] });
            }
        }
        // iteration beside writers updating existing keys, same and different shards
        "c16" => {
            for hash in [HashKind::SameShard, HashKind::Spread] {
                let mut c = base(None, None);
                c.hash = hash;
                c.nkeys = 3;
                let pre = vec![Op::Ins(0, 1), Op::Ins(1, 1), Op::Ins(2, 1), Op::Sync];
                out.push(Program { cfg: c.clone(), prefix: pre.clone(), threads: vec![vec![TOp::Iter], vec![TOp::Ins(0, 1), TOp::Ins(1, 1)]] });
                out.push(Program { cfg: c.clone(), prefix: pre.clone(), threads: vec![vec![TOp::Iter], vec![TOp::Ins(2, 1)], vec![TOp::Ins(0, 1)]] });
                out.push(Program { cfg: c.clone(), prefix: pre.clone(), threads: vec![vec![TOp::Iter], vec![TOp::Get(0), TOp::Ins(1, 1)]] });
                // NEW keys arriving while the iteration is under way: it may or may not
                // yield them, but every key that stays resident is yielded
                let mut c5 = c.clone();
                c5.nkeys = 5;
                out.push(Program { cfg: c5.clone(), prefix: pre.clone(), threads: vec![vec![TOp::Iter], vec![TOp::Ins(3, 1)]] });
                out.push(Program { cfg: c5.clone(), prefix: pre.clone(), threads: vec![vec![TOp::Iter], vec![TOp::Ins(3, 1), TOp::Ins(4, 1)]] });
            }
            // iteration while maintenance purges expired entries that a writer refreshes
            for hash in [HashKind::SameShard, HashKind::Spread] {
                let mut c = base(None, None);
                c.ttl = Some(2);
                c.hash = hash;
                c.nkeys = 2;
                let pre = vec![Op::Ins(0, 1), Op::Ins(1, 1), Op::Sync, Op::Adv(2)];
                out.push(Program { cfg: c.clone(), prefix: pre.clone(), threads: vec![vec![TOp::Sync], vec![TOp::Ins(0, 1)], vec![TOp::Iter]] });
                out.push(Program { cfg: c.clone(), prefix: pre.clone(), threads: vec![vec![TOp::Ins(0, 1), TOp::Sync], vec![TOp::Iter]] });
            }
        }
        // (c16 continued below)
        // overshoot between maintenance runs: two inserting threads against maintenance
        "c04" => {
            for cap in [Some(0u64), Some(1)] {
                let mut c = base(cap, None);
                c.nkeys = 4;
                out.push(Program { cfg: c.clone(), prefix: vec![], threads: vec![vec![TOp::Ins(0, 1), TOp::Ins(1, 1)], vec![TOp::Ins(2, 1), TOp::Ins(3, 1)], vec![TOp::Sync]] });
            }
            // two maintenance passes that overlap (explicit sync() calls do not go through
            // the housekeeper's flag; the deques mutex serialises them): the second must
            // work on what the first published
            for cap in [Some(1u64), Some(2)] {
                let mut c = base(cap, None);
                c.nkeys = 4;
                out.push(Program { cfg: c.clone(), prefix: vec![], threads: vec![vec![TOp::Ins(0, 1), TOp::Sync], vec![TOp::Ins(1, 1), TOp::Sync]] });
                out.push(Program { cfg: c.clone(), prefix: vec![Op::Ins(0, 1)], threads: vec![vec![TOp::Sync], vec![TOp::Ins(1, 1), TOp::Sync]] });
                out.push(Program { cfg: c.clone(), prefix: vec![Op::Ins(0, 1), Op::Ins(1, 1)], threads: vec![vec![TOp::Sync, TOp::Ins(2, 1)], vec![TOp::Ins(3, 1), TOp::Sync]] });
            }
            // the overshoot bound while one thread is parked inside a maintenance pass
            // and another keeps inserting (the bounded write log is what stops it)
            for cap in [Some(1u64), Some(10)] {
                let mut c = base(cap, None);
                c.nkeys = 5;
                out.push(Program { cfg: c.clone(), prefix: vec![Op::Ins(0, 1)], threads: vec![vec![TOp::Sync], vec![TOp::Burst(390, 5)]] });
                let mut c2 = c.clone();
                c2.beyond = false;
                out.push(Program { cfg: c2, prefix: vec![Op::Ins(0, 1)], threads: vec![vec![TOp::Get(0)], vec![TOp::Burst(390, 5)]] });
            }
        }
        // more lookups than the read log holds while another thread is parked inside a
        // maintenance pass it entered through the housekeeper (so nobody else can drain):
        // lookups beyond the log's capacity are simply not recorded
        "rdfull" => {
            for cap in [None, Some(2u64)] {
                let mut c = base(cap, None);
                c.nkeys = 3;
                c.beyond = false;
                out.push(Program { cfg: c.clone(), prefix: vec![Op::Ins(0, 1)], threads: vec![vec![TOp::Get(0)], vec![TOp::GBurst(400, 3)]] });
                out.push(Program { cfg: c.clone(), prefix: vec![Op::Ins(0, 1)], threads: vec![vec![TOp::Ins(1, 1)], vec![TOp::GBurst(400, 2), TOp::Get(0)]] });
            }
        }
        // scheduling also at the loads of an entry's shared flags and weight (written by
        // inserting threads, read by the maintenance pass): weight-changing updates,
        // invalidations and lookups of one key beside a pass that is applying earlier
        // ops of the same key
        "fine" => {
            let preludes: Vec<Vec<Op>> = vec![
                vec![Op::Ins(0, 1)],
                vec![Op::Ins(0, 1), Op::Sync],
                vec![Op::Ins(0, 1), Op::Sync, Op::Ins(0, 2)],
                vec![Op::Ins(0, 1), Op::Ins(1, 2), Op::Sync, Op::Ins(0, 2)],
                vec![Op::Ins(0, 1), Op::Ins(1, 2), Op::Sync, Op::Get(0), Op::Ins(0, 2)],
            ];
            let t1s: Vec<Vec<TOp>> = vec![vec![TOp::Ins(0, 3)], vec![TOp::Inv(0)], vec![TOp::Ins(0, 3), TOp::Inv(0)], vec![TOp::Inv(0), TOp::Ins(0, 3)], vec![TOp::Ins(0, 3), TOp::Ins(0, 1)]];
            for cap in [None, Some(4u64)] {
                for pre in &preludes {
                    for t1 in &t1s {
                        let mut c = base(cap, None);
                        c.weigher = true;
                        c.alpha = "fine".into();
                        out.push(Program { cfg: c, prefix: pre.clone(), threads: vec![t1.clone(), vec![TOp::Sync]] });
                    }
                }
            }
            // the purge scans read the dirty flag and the timestamps of an entry a writer
            // is refreshing
            for (ttl, tti) in [(Some(2u32), None), (None, Some(2u32))] {
                for pre in [vec![Op::Ins(0, 1), Op::Sync, Op::Adv(2)], vec![Op::Ins(0, 1), Op::Ins(1, 1), Op::Sync, Op::Adv(2)]] {
                    for t1 in [vec![TOp::Ins(0, 2)], vec![TOp::Get(0)], vec![TOp::Inv(0), TOp::Ins(0, 2)]] {
                        let mut c = base(None, tti);
                        c.ttl = ttl;
                        c.weigher = true;
                        c.alpha = "fine".into();
                        out.push(Program { cfg: c, prefix: pre.clone(), threads: vec![t1.clone(), vec![TOp::Sync]] });
                    }
                }
            }
        }
        // lookups beside a map write in progress (hook a7c7ad2: with the fine-grained
        // points on, a thread can be parked *inside* a write operation of the map; the
        // map's non-blocking operations find the shard locked then, blocking ones simply
        // run before the write): a resident key must be found whatever another thread
        // is writing - the same key, another key, an invalidation of another key, a pass
        "inwrite" => {
            let preludes: Vec<Vec<Op>> = vec![vec![Op::Ins(0, 1), Op::Sync], vec![Op::Ins(0, 1)], vec![Op::Ins(0, 1), Op::Ins(1, 1), Op::Sync, Op::Get(0)]];
            let readers: Vec<Vec<TOp>> = vec![vec![TOp::Con(0)], vec![TOp::Get(0)], vec![TOp::Con(0), TOp::Get(0)], vec![TOp::Iter]];
            let writers: Vec<Vec<TOp>> = vec![vec![TOp::Ins(1, 1)], vec![TOp::Ins(0, 2)], vec![TOp::Inv(1)], vec![TOp::Ins(1, 1), TOp::Inv(1)], vec![TOp::Ins(2, 1), TOp::Sync], vec![TOp::Sync]];
            for (cap, ttl, tti) in [(None, None, None), (Some(8u64), None, None), (None, Some(4u32), None), (None, None, Some(4u32))] {
                for pre in &preludes {
                    for rd in &readers {
                        for wr in &writers {
                            let mut c = base(cap, tti);
                            c.ttl = ttl;
                            c.weigher = true;
                            c.alpha = "fine".into();
                            c.nkeys = 3;
                            out.push(Program { cfg: c, prefix: pre.clone(), threads: vec![rd.clone(), wr.clone()] });
                        }
                    }
                }
            }
        }
        // the fair adversary (one schedule per program, not a search): a thread that runs
        // the maintenance beside a writer that produces one op for every op applied
        "fair" => {
            let k = mini_moka::verif::constants();
            let n = ((k.max_sync_repeats + 1) * k.write_log_size.max(k.read_log_size) + 200) as u16;
            for cap in [None, Some(8u64)] {
                for pre in [vec![Op::Ins(0, 1), Op::Ins(1, 1), Op::Ins(2, 1)], vec![Op::Ins(0, 1), Op::Sync, Op::Ins(1, 1), Op::Get(0), Op::Ins(2, 1), Op::Get(1)]] {
                    for (t0, beyond) in [(TOp::Sync, true), (TOp::Sync, false), (TOp::Ins(3, 1), false), (TOp::Get(0), false)] {
                        let mut c = base(cap, None);
                        c.nkeys = 12;
                        c.beyond = beyond;
                        c.alpha = "fair".into();
                        out.push(Program { cfg: c.clone(), prefix: pre.clone(), threads: vec![vec![t0], vec![TOp::FBurst(n, 8)]] });
                        // ... and beside a reader that delivers one read record for every record applied
                        out.push(Program { cfg: c, prefix: pre.clone(), threads: vec![vec![t0], vec![TOp::FGBurst(n, 3)]] });
                    }
                }
            }
        }
        other => panic!("unknown program family {other}"),
    }
    out
}

pub struct FamilyResult {
    pub family: String,
    pub part: String,
    pub bound: u32,
    pub programs: u64,
    pub schedules: u64,
    pub max_points: usize,
    pub outcomes: usize,
    pub capped: bool,
    pub violations: Vec<Violation>,
    pub viol_total: u64,
    pub samples: Vec<String>,
    pub wall_s: f64,
}

impl FamilyResult {
    pub fn to_json(&self) -> String {
        format!(
            "{{\"engine\":\"schedx\",\"spec\":{},\"states\":{},\"transitions\":0,\"programs\":{},\"schedules\":{},\"max_preemptions\":{},\"max_choice_points\":{},\"depth_done\":{},\"capped\":{},\"outcomes\":{},\"viol_total\":{},\"violations\":{},\"samples\":{},\"wall_s\":{:.3}}}",
            jstr(&format!("family={},part={},bound={}", self.family, self.part, self.bound)),
            self.programs,
            self.programs,
            self.schedules,
            self.bound,
            self.max_points,
            self.bound,
            self.capped,
            self.outcomes,
            self.viol_total,
            jlist(&self.violations.iter().map(|v| v.to_json()).collect::<Vec<_>>()),
            jlist(&self.samples.iter().map(|s| jstr(s)).collect::<Vec<_>>()),
            self.wall_s
        )
    }
}

/// Runs part `i` of `n` of a program family.
pub fn run_family(name: &str, tier: &str, bound: u32, part: usize, parts: usize, max_schedules_per_program: u64, wall_cap_s: f64) -> Result<FamilyResult, String> {
    let t0 = Instant::now();
    let deadline = t0 + Duration::from_secs_f64(wall_cap_s);
    let progs = family(name, tier);
    let mut res = FamilyResult { family: name.into(), part: format!("{part}/{parts}"), bound, programs: 0, schedules: 0, max_points: 0, outcomes: 0, capped: false, violations: vec![], viol_total: 0, samples: vec![], wall_s: 0.0 };
    let mut sigs: HashSet<(String, String)> = HashSet::new();
    let journal = crate::seqx::Journal::open(&std::env::var("MMVERIF_JOURNAL").ok());
    for (i, p) in progs.iter().enumerate() {
        if i % parts != part {
            continue;
        }
        // a Burst makes executions long: explore them with the bound only, fewer schedules
        let r = explore(p, bound, max_schedules_per_program, deadline, &journal);
        if let Some(m) = r.machinery {
            return Err(m);
        }
        res.programs += 1;
        res.schedules += r.schedules;
        res.max_points = res.max_points.max(r.max_points);
        res.outcomes += r.outcomes;
        res.capped |= r.capped;
        res.viol_total += r.viol_total;
        for v in r.violations {
            if sigs.insert((v.prop.to_string(), v.sig.clone())) {
                res.violations.push(v);
            }
        }
        if res.samples.len() < 2 {
            res.samples.push(format!("schedx|{}", p.text()));
        }
    }
    res.wall_s = t0.elapsed().as_secs_f64();
    journal.write("done");
    Ok(res)
}

pub fn replay(w: &str) -> Vec<Violation> {
    let parts: Vec<&str> = w.split('|').collect();
    assert!(parts.len() >= 5 && parts[0] == "schedx", "not a schedx witness");
    let prog = Program::parse(parts[1], parts[2], parts[3]);
    let choices: Vec<(u16, u16)> = parts[4]
        .split(',')
        .filter(|x| !x.is_empty())
        .map(|x| {
            let (a, b) = x.split_once('/').unwrap();
            (a.parse().unwrap(), b.parse().unwrap())
        })
        .collect();
    let hasher = make_hasher(prog.cfg.hash);
    let x = run_once(&prog, &hasher, &choices, 200_000);
    println!("program: {}", prog.text());
    println!("schedule ({} choice points):", x.trace.len());
    for (i, c) in x.trace.iter().enumerate() {
        if c.n_enabled > 1 || c.chosen != 0 {
            println!("  point {i:<3} by T{:<2} at {:<14} enabled={} chosen={}{}", c.decider, c.label, c.n_enabled, c.chosen, if c.running_enabled && c.chosen != 0 { "  (preemption)" } else { "" });
        }
    }
    let mut recs = x.recs.clone();
    recs.sort_by_key(|r| r.start);
    for r in &recs {
        println!("  T{:<2} #{:<2} {:<16} [{:>4},{:>4}] -> {:?}{}", r.thread, r.idx, r.op.text(), r.start, if r.end == u64::MAX { 0 } else { r.end }, r.obs, if r.completed { "" } else { "  (did not return)" });
    }
    if let Some(a) = &x.abort {
        println!("  execution aborted: {a:?}");
    }
    for v in &x.viol {
        println!("      VIOLATED {} [{}]: {}", v.prop, v.sig, v.detail);
    }
    x.viol
}
