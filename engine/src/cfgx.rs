//! E5: exhaustive enumeration of the builder configuration space (C17).
//! Every combination of knobs over small boundary sets, for both cache kinds and
//! every constructor; per configuration: policy() echoes the knobs, build panics
//! iff a duration exceeds 1000 years (documented message), and a fixed history
//! gives the same trace as on the equivalent configuration.

use crate::common::*;
use mini_moka::sync::ConcurrentCacheExt;
use std::panic::{catch_unwind, AssertUnwindSafe};
use std::time::{Duration, Instant};

const YEAR: u64 = 365 * 24 * 3600;

#[derive(Clone, Copy, Debug, PartialEq, Eq)]
pub enum Ctor {
    Builder,
    BuilderNew,
    New,
}

#[derive(Clone, Copy, Debug, PartialEq)]
pub struct Knobs {
    pub sync: bool,
    pub ctor: Ctor,
    pub cap: Option<u64>,
    pub init: Option<usize>,
    /// None: absent; Some(false): constant 1; Some(true): by value
    pub weigher: Option<bool>,
    pub ttl: Option<Duration>,
    pub tti: Option<Duration>,
}

impl Knobs {
    pub fn text(&self) -> String {
        format!(
            "kind={} ctor={:?} max_capacity={:?} initial_capacity={:?} weigher={:?} ttl={:?} tti={:?}",
            if self.sync { "sync" } else { "unsync" },
            self.ctor,
            self.cap,
            self.init,
            self.weigher,
            self.ttl,
            self.tti
        )
    }
}

fn durations() -> Vec<Option<Duration>> {
    vec![
        None,
        Some(Duration::ZERO),
        Some(Duration::from_secs(1)),
        Some(Duration::from_secs(1000 * YEAR)),
        Some(Duration::from_secs(1000 * YEAR) + Duration::from_nanos(1)),
        Some(Duration::MAX),
    ]
}

fn too_long(d: Option<Duration>) -> bool {
    matches!(d, Some(d) if d > Duration::from_secs(1000 * YEAR))
}

enum Built {
    U(mini_moka::unsync::Cache<K, V, TableHasher>),
    S(mini_moka::sync::Cache<K, V, TableHasher>),
}

/// Builds with the deterministic hasher (for the differential history).
fn build(k: &Knobs, h: TableHasher) -> Built {
    if k.sync {
        type B = mini_moka::sync::CacheBuilder<K, V, mini_moka::sync::Cache<K, V>>;
        let mut b: B = match k.ctor {
            Ctor::Builder => {
                let mut b = mini_moka::sync::Cache::<K, V>::builder();
                if let Some(c) = k.cap {
                    b = b.max_capacity(c);
                }
                b
            }
            Ctor::BuilderNew | Ctor::New => B::new(k.cap.unwrap()),
        };
        if let Some(i) = k.init {
            b = b.initial_capacity(i);
        }
        match k.weigher {
            None => {}
            Some(false) => b = b.weigher(|_k, _v| 1),
            Some(true) => b = b.weigher(|_k, v: &V| v.w),
        }
        if let Some(d) = k.ttl {
            b = b.time_to_live(d);
        }
        if let Some(d) = k.tti {
            b = b.time_to_idle(d);
        }
        Built::S(b.build_with_hasher(h))
    } else {
        type B = mini_moka::unsync::CacheBuilder<K, V, mini_moka::unsync::Cache<K, V>>;
        let mut b: B = match k.ctor {
            Ctor::Builder => {
                let mut b = mini_moka::unsync::Cache::<K, V>::builder();
                if let Some(c) = k.cap {
                    b = b.max_capacity(c);
                }
                b
            }
            Ctor::BuilderNew | Ctor::New => B::new(k.cap.unwrap()),
        };
        if let Some(i) = k.init {
            b = b.initial_capacity(i);
        }
        match k.weigher {
            None => {}
            Some(false) => b = b.weigher(|_k, _v| 1),
            Some(true) => b = b.weigher(|_k, v: &V| v.w),
        }
        if let Some(d) = k.ttl {
            b = b.time_to_live(d);
        }
        if let Some(d) = k.tti {
            b = b.time_to_idle(d);
        }
        Built::U(b.build_with_hasher(h))
    }
}

/// (max_capacity, ttl, tti) reported by policy() of a cache built through the
/// constructor under test with the DEFAULT hasher (`build()` / `new(n)`).
fn policy_default_hasher(k: &Knobs) -> (Option<u64>, Option<Duration>, Option<Duration>) {
    macro_rules! knobs {
        ($b:expr) => {{
            let mut b = $b;
            if let Some(i) = k.init {
                b = b.initial_capacity(i);
            }
            match k.weigher {
                None => {}
                Some(false) => b = b.weigher(|_k, _v| 1),
                Some(true) => b = b.weigher(|_k, v: &V| v.w),
            }
            if let Some(d) = k.ttl {
                b = b.time_to_live(d);
            }
            if let Some(d) = k.tti {
                b = b.time_to_idle(d);
            }
            let c = b.build();
            let p = c.policy();
            (p.max_capacity(), p.time_to_live(), p.time_to_idle())
        }};
    }
    if k.sync {
        match k.ctor {
            Ctor::New => {
                let c = mini_moka::sync::Cache::<K, V>::new(k.cap.unwrap());
                let p = c.policy();
                (p.max_capacity(), p.time_to_live(), p.time_to_idle())
            }
            Ctor::BuilderNew => knobs!(mini_moka::sync::CacheBuilder::<K, V, mini_moka::sync::Cache<K, V>>::new(k.cap.unwrap())),
            Ctor::Builder => {
                let mut b = mini_moka::sync::Cache::<K, V>::builder();
                if let Some(c) = k.cap {
                    b = b.max_capacity(c);
                }
                knobs!(b)
            }
        }
    } else {
        match k.ctor {
            Ctor::New => {
                let c = mini_moka::unsync::Cache::<K, V>::new(k.cap.unwrap());
                let p = c.policy();
                (p.max_capacity(), p.time_to_live(), p.time_to_idle())
            }
            Ctor::BuilderNew => knobs!(mini_moka::unsync::CacheBuilder::<K, V, mini_moka::unsync::Cache<K, V>>::new(k.cap.unwrap())),
            Ctor::Builder => {
                let mut b = mini_moka::unsync::Cache::<K, V>::builder();
                if let Some(c) = k.cap {
                    b = b.max_capacity(c);
                }
                knobs!(b)
            }
        }
    }
}

/// The fixed differential history. Hash independent: no admission decision in it
/// depends on popularity (nothing is read before the inserts that overflow).
fn history(b: &mut Built) -> Vec<String> {
    let mut t: Vec<String> = Vec::new();
    let weights = [1u32, 2, 1, 3, 1, 1];
    macro_rules! run {
        ($c:expr, $sync:expr) => {{
            let c = $c;
            let _clock = c.verif_install_mock_clock();
            for (i, w) in weights.iter().enumerate() {
                c.insert(K::new(i as u8), V::new(i as u32 + 1, *w));
                $sync(&*c);
                t.push(format!("ins{}:ec={},ws={}", i, c.entry_count(), c.weighted_size()));
            }
            for i in 0..7u8 {
                t.push(format!("con{}={}", i, c.contains_key(&K::probe(i))));
            }
            c.insert(K::new(1), V::new(100, 1));
            $sync(&*c);
            t.push(format!("upd1:ec={},ws={}", c.entry_count(), c.weighted_size()));
            c.invalidate(&K::probe(0));
            $sync(&*c);
            t.push(format!("inv0:ec={},ws={}", c.entry_count(), c.weighted_size()));
            let mut items: Vec<(u8, u32)> = c.iter().map(|e| pair(e)).collect();
            items.sort();
            t.push(format!("iter={:?}", items));
            c.invalidate_all();
            $sync(&*c);
            t.push(format!("invall:con2={}", c.contains_key(&K::probe(2))));
            c.insert(K::new(9), V::new(200, 1));
            $sync(&*c);
            t.push(format!("ins9:con9={},ec={},ws={}", c.contains_key(&K::probe(9)), c.entry_count(), c.weighted_size()));
        }};
    }
    match b {
        Built::U(c) => {
            fn pair(e: (&K, &V)) -> (u8, u32) {
                (e.0.k, e.1.id)
            }
            run!(c, |_c: &mini_moka::unsync::Cache<K, V, TableHasher>| {})
        }
        Built::S(c) => {
            fn pair(e: mini_moka::sync::EntryRef<'_, K, V>) -> (u8, u32) {
                (e.key().k, e.value().id)
            }
            run!(&mut *c, |c: &mini_moka::sync::Cache<K, V, TableHasher>| c.sync())
        }
    }
    t
}

/// A second differential history whose admission decisions DO depend on popularity
/// (lookups of a key before the cache is half full, then a contest for room). Both sides
/// of every comparison use the same fixed hasher, so equivalent configurations must still
/// agree step by step.
fn history2(b: &mut Built) -> Vec<String> {
    let mut t: Vec<String> = Vec::new();
    macro_rules! run {
        ($c:expr, $sync:expr) => {{
            let c = $c;
            let _clock = c.verif_install_mock_clock();
            for _ in 0..3 {
                let hit = c.get(&K::probe(9)).is_some();
                t.push(format!("h2:early-get9={hit}"));
            }
            $sync(&*c);
            for i in 0..6u8 {
                c.insert(K::new(i), V::new(i as u32 + 1, 1));
                $sync(&*c);
            }
            for _ in 0..2 {
                let hit = c.get(&K::probe(0)).is_some();
                t.push(format!("h2:get0={hit}"));
                $sync(&*c);
            }
            c.insert(K::new(9), V::new(300, 1));
            $sync(&*c);
            for i in [0u8, 1, 2, 3, 4, 5, 9] {
                t.push(format!("h2:con{}={}", i, c.contains_key(&K::probe(i))));
            }
            for _ in 0..2 {
                let hit = c.get(&K::probe(8)).is_some();
                t.push(format!("h2:get8={hit}"));
                $sync(&*c);
            }
            c.insert(K::new(8), V::new(301, 1));
            $sync(&*c);
            for i in [0u8, 1, 2, 3, 4, 5, 8, 9] {
                t.push(format!("h2:con{}={}", i, c.contains_key(&K::probe(i))));
            }
            t.push(format!("h2:ec={},ws={}", c.entry_count(), c.weighted_size()));
        }};
    }
    match b {
        Built::U(c) => run!(&mut *c, |_c: &mini_moka::unsync::Cache<K, V, TableHasher>| {}),
        Built::S(c) => run!(&mut *c, |c: &mini_moka::sync::Cache<K, V, TableHasher>| c.sync()),
    }
    t
}

pub struct CfgResult {
    pub configs: u64,
    pub steps: u64,
    pub panicking_configs: u64,
    pub outcomes: usize,
    pub violations: Vec<Violation>,
    pub viol_total: u64,
    pub samples: Vec<String>,
    pub wall_s: f64,
}

impl CfgResult {
    pub fn to_json(&self) -> String {
        format!(
            "{{\"engine\":\"cfgx\",\"spec\":\"all\",\"states\":{},\"transitions\":{},\"panicking_configs\":{},\"depth_done\":1,\"capped\":false,\"outcomes\":{},\"viol_total\":{},\"violations\":{},\"samples\":{},\"wall_s\":{:.3}}}",
            self.configs,
            self.steps,
            self.panicking_configs,
            self.outcomes,
            self.viol_total,
            jlist(&self.violations.iter().map(|v| v.to_json()).collect::<Vec<_>>()),
            jlist(&self.samples.iter().map(|s| jstr(s)).collect::<Vec<_>>()),
            self.wall_s
        )
    }
}

fn trace(k: &Knobs, h: TableHasher) -> Result<Vec<String>, String> {
    tracker().reset();
    catch_unwind(AssertUnwindSafe(|| {
        let mut b = build(k, h);
        let mut t = history(&mut b);
        drop(b);
        let mut b2 = build(k, h);
        t.extend(history2(&mut b2));
        t
    }))
    .map_err(|p| panic_msg(&p))
}

pub fn run() -> CfgResult {
    let t0 = Instant::now();
    let hasher = make_hasher(HashKind::Spread);
    let mut res = CfgResult { configs: 0, steps: 0, panicking_configs: 0, outcomes: 0, violations: vec![], viol_total: 0, samples: vec![], wall_s: 0.0 };
    let mut outcomes = std::collections::HashSet::new();
    let mut sigs = std::collections::HashSet::new();
    let mut all: Vec<Knobs> = Vec::new();
    for sync in [false, true] {
        for ctor in [Ctor::Builder, Ctor::BuilderNew, Ctor::New] {
            let caps: Vec<Option<u64>> = if ctor == Ctor::Builder {
                vec![None, Some(0), Some(1), Some(2), Some(5), Some(u64::MAX)]
            } else {
                vec![Some(0), Some(1), Some(2), Some(5), Some(u64::MAX)]
            };
            for cap in caps {
                if ctor == Ctor::New {
                    all.push(Knobs { sync, ctor, cap, init: None, weigher: None, ttl: None, tti: None });
                    continue;
                }
                for init in [None, Some(0usize), Some(1), Some(1000)] {
                    for weigher in [None, Some(true)] {
                        for ttl in durations() {
                            for tti in durations() {
                                all.push(Knobs { sync, ctor, cap, init, weigher, ttl, tti });
                            }
                        }
                    }
                }
            }
        }
    }
    let mut report = |res: &mut CfgResult, sigs: &mut std::collections::HashSet<String>, k: &Knobs, sig: String, detail: String| {
        res.viol_total += 1;
        if sigs.insert(sig.clone()) {
            res.violations.push(Violation { prop: "C17", sig, detail: format!("{} :: {}", k.text(), detail), witness: format!("cfgx||{}", k.text()) });
        }
    };
    for k in &all {
        res.configs += 1;
        let kd = if k.sync { "S" } else { "U" };
        // --- build through the constructor under test, default hasher: panic iff too long
        let should_panic = too_long(k.ttl) || too_long(k.tti);
        let want_msg = if too_long(k.ttl) { "time_to_live is longer than 1000 years" } else { "time_to_idle is longer than 1000 years" };
        let r = catch_unwind(AssertUnwindSafe(|| policy_default_hasher(k)));
        res.steps += 1;
        match (&r, should_panic) {
            (Ok(_), true) => report(&mut res, &mut sigs, k, format!("{kd}:build-did-not-panic"), "a duration above 1000 years was accepted".into()),
            (Err(p), false) => report(&mut res, &mut sigs, k, format!("{kd}:build-panicked"), format!("build panicked: {}", panic_msg(p))),
            (Err(p), true) => {
                res.panicking_configs += 1;
                let m = panic_msg(p);
                if !m.contains(want_msg) {
                    report(&mut res, &mut sigs, k, format!("{kd}:wrong-panic-message"), format!("panic message {m:?}, documented {want_msg:?}"));
                }
                outcomes.insert(format!("panic:{want_msg}"));
            }
            (Ok(p), false) => {
                if *p != (k.cap, k.ttl, k.tti) {
                    report(&mut res, &mut sigs, k, format!("{kd}:policy-mismatch"), format!("policy() reports {p:?}"));
                }
            }
        }
        // same through build_with_hasher
        let r2 = catch_unwind(AssertUnwindSafe(|| match build(k, hasher) {
            Built::U(c) => {
                let p = c.policy();
                (p.max_capacity(), p.time_to_live(), p.time_to_idle())
            }
            Built::S(c) => {
                let p = c.policy();
                (p.max_capacity(), p.time_to_live(), p.time_to_idle())
            }
        }));
        res.steps += 1;
        match (&r2, should_panic) {
            (Ok(_), true) => report(&mut res, &mut sigs, k, format!("{kd}:build_with_hasher-did-not-panic"), "a duration above 1000 years was accepted".into()),
            (Err(p), false) => report(&mut res, &mut sigs, k, format!("{kd}:build_with_hasher-panicked"), format!("panicked: {}", panic_msg(p))),
            (Ok(p), false) if *p != (k.cap, k.ttl, k.tti) => report(&mut res, &mut sigs, k, format!("{kd}:policy-mismatch:with_hasher"), format!("policy() reports {p:?}")),
            _ => {}
        }
        if should_panic {
            continue;
        }
        // --- differential history
        let base = trace(k, hasher);
        res.steps += 50;
        let base = match base {
            Ok(t) => t,
            Err(m) => {
                report(&mut res, &mut sigs, k, format!("{kd}:history-panicked"), m);
                continue;
            }
        };
        outcomes.insert(base.join(";"));
        if res.samples.len() < 2 && k.cap == Some(2) && k.weigher == Some(true) {
            res.samples.push(format!("{} => {}", k.text(), base.join(" ")));
        }
        let mut cmp = |other: Knobs, what: &str, res: &mut CfgResult, sigs: &mut std::collections::HashSet<String>| {
            res.steps += 50;
            match trace(&other, hasher) {
                Ok(t) if t == base => {}
                Ok(t) => {
                    let i = t.iter().zip(base.iter()).position(|(a, b)| a != b).unwrap_or(0);
                    report(res, sigs, k, format!("{kd}:differs-from:{what}"), format!("step {i}: {:?} vs {:?} on the equivalent configuration ({what})", base.get(i), t.get(i)));
                }
                Err(m) => report(res, sigs, k, format!("{kd}:equivalent-config-panicked:{what}"), m),
            }
        };
        if k.init.is_some() {
            cmp(Knobs { init: None, ..*k }, "initial_capacity absent", &mut res, &mut sigs);
        }
        if k.weigher.is_none() {
            cmp(Knobs { weigher: Some(false), ..*k }, "weigher = constant 1", &mut res, &mut sigs);
        }
        if k.ctor != Ctor::Builder {
            cmp(Knobs { ctor: Ctor::Builder, ..*k }, "builder().max_capacity(n)", &mut res, &mut sigs);
        }
        // no max_capacity: never evicts for size
        if k.cap.is_none() && k.ttl != Some(Duration::ZERO) && k.tti != Some(Duration::ZERO) {
            let want = ["con0=true", "con1=true", "con2=true", "con3=true", "con4=true", "con5=true", "con6=false"];
            for w in want {
                if !base.iter().any(|x| x == w) {
                    report(&mut res, &mut sigs, k, format!("{kd}:unbounded-cache-lost-entry"), format!("expected {w} in {base:?}"));
                }
            }
            if !base.iter().any(|x| x == "iter=[(1, 100), (2, 3), (3, 4), (4, 5), (5, 6)]") {
                report(&mut res, &mut sigs, k, format!("{kd}:unbounded-cache-iter"), format!("{base:?}"));
            }
        }
        // without a weigher every entry weighs 1
        if k.weigher.is_none() {
            for s in &base {
                if let Some(rest) = s.split_once(":ec=") {
                    let (ec, ws) = rest.1.split_once(",ws=").unwrap();
                    if ec != ws {
                        report(&mut res, &mut sigs, k, format!("{kd}:unit-weight"), format!("no weigher but {s}"));
                    }
                }
            }
        }
    }
    res.outcomes = outcomes.len();
    if res.samples.is_empty() {
        res.samples.push(all[0].text());
    }
    res.wall_s = t0.elapsed().as_secs_f64();
    res
}
