"""Job tables: which bounded spaces each property's check explores.

A job is one engine process: one configuration (cache kind, capacity, weigher,
expiry, hasher, housekeeping regime), one alphabet and its bounds. Jobs of a
check run in parallel; each is a complete breadth-first search of its space.
"""
import itertools


def spec(**kw):
    d = dict(kind="U", cap="none", w=0, ttl="none", tti="none", hash="spread", tick=1000, beyond=1,
             autosync=0, keys=3, Q=2, A=1, D=6, alpha="basic", lru=0, pure=0, max=3000000)
    d.update(kw)
    order = ["kind", "cap", "w", "ttl", "tti", "hash", "tick", "beyond", "autosync", "keys", "Q", "A", "D", "alpha", "lru", "pure", "max"]
    s = ",".join("%s=%s" % (k, d[k]) for k in order)
    if d.get("unit"):
        s += ",unit=%s" % d["unit"]
    if d.get("pre"):
        s += ",pre=%s" % d["pre"]
    return s


# a time unit that is neither a whole number of milliseconds nor of microseconds
ODD_UNIT = 1000003


def seqjob(jid, **kw):
    return {"id": jid, "argv": ["seqx", spec(**kw), "@JOURNAL@"]}


def name(prefix, kw):
    return prefix + "-" + "-".join("%s%s" % (k, kw[k]) for k in sorted(kw) if k not in ("alpha", "max", "lru", "pure"))


def regimes():
    # S housekeeping regimes: "beyond" (nothing applied until sync()/64 pending; 1 s ticks)
    # and "within" (every op first runs maintenance; 200 ms ticks keep it so across advances)
    return [dict(beyond=1, tick=1000), dict(beyond=0, tick=200)]


def c01_space(tier, alpha="basic", expiries=None, caps=None, with_collide=True, kinds=("U", "S"), weighers=(0, 1), prefix="c01",
              dU=None, dS=None, q=None, a=None, keysU=3, keysS=3):
    """The family of configurations C01 quantifies over (reused by C03/C07/C10/C11)."""
    thorough = tier == "thorough"
    expiries = expiries if expiries is not None else [dict(), dict(ttl=2), dict(tti=2), dict(ttl=3, tti=2)]
    caps = caps if caps is not None else ["none", 0, 1, 2]
    hashes = ["spread", "collide"] if with_collide else ["spread"]
    out = []
    for kind in kinds:
        for cap, w, ex, h in itertools.product(caps, weighers, expiries, hashes):
            if h == "collide" and (cap == "none" or cap == 0):
                continue  # the hasher only matters where popularity / buckets decide something
            al = alpha
            if w == 1 and alpha == "basic":
                al = "weights" if cap in (1, 2) else "basic"
            base = dict(kind=kind, cap=cap, w=w, hash=h, alpha=al, **ex)
            # the by-value alphabets have four weights per key: two keys keep them tractable
            # (multi-victim situations with more keys are in the LRU spaces of C12/C13)
            kU, kS = (2, 2) if (al == "weights" and not thorough) else (keysU, keysS)
            if kind == "U":
                d = dU if dU is not None else (8 if thorough else 6)
                if al == "weights" and thorough:
                    d -= 1
                kw = dict(base, keys=kU, D=d, A=(a if a is not None else (2 if thorough else 1)))
                out.append(seqjob(name(prefix, kw), **kw))
            else:
                for rg in regimes():
                    if rg["beyond"] == 0 and h == "collide":
                        continue
                    d = dS if dS is not None else (7 if thorough else 6)
                    if al == "weights" and thorough:
                        d -= 1
                    kw = dict(base, keys=kS, D=d, Q=(q if q is not None else (3 if thorough else 2)),
                              A=(a if a is not None else (2 if thorough else 1)), **rg)
                    out.append(seqjob(name(prefix, kw), **kw))
    return out


def deep_narrow(tier, prefix):
    """Two keys only, but deep: the single-threaded cache practically to its fixpoint for
    two clock advances, the concurrent one in the regime where ops stay queued."""
    thorough = tier == "thorough"
    out = []
    exps = [dict(), dict(ttl=2), dict(tti=2), dict(ttl=3, tti=2)]
    for cap, ex in itertools.product(["none", 1, 2], exps):
        kw = dict(dict(kind="U", cap=cap, w=0, hash="spread", alpha="basic", keys=2, D=14 if thorough else 12, A=3 if thorough else 2), **ex)
        out.append(seqjob(name(prefix + "deep", kw), **kw))
    for cap, ex in itertools.product(["none", 2], exps):
        kw = dict(dict(kind="S", cap=cap, w=0, hash="spread", alpha="basic", keys=2, D=9 if thorough else 8, Q=3, A=2, beyond=1, tick=1000), **ex)
        out.append(seqjob(name(prefix + "deep", kw), **kw))
    # capacities at and above 2^63 (every "room left" computation is near the ends of u64)
    for kind, cap in itertools.product(("U", "S"), (1 << 63, (1 << 64) - 1)):
        kw = dict(kind=kind, cap=cap, w=1, hash="spread", alpha="weights", keys=2, D=6 if thorough else 5, Q=3, A=0, beyond=1, tick=1000)
        out.append(seqjob(name(prefix + "hugecap", kw), **kw))
    return out


def longdur_space(tier, prefix, alpha):
    """The longest durations the builders accept: ttl / tti of exactly 1000 years (two
    ticks of 500 years), the clock moving by centuries."""
    thorough = tier == "thorough"
    out = []
    for kind in ("U", "S"):
        for cap, ex in itertools.product(["none", 2], [dict(ttl=2), dict(tti=2), dict(ttl=2, tti=2)]):
            kw = dict(dict(kind=kind, cap=cap, w=0, hash="spread", alpha=alpha, keys=2, D=8 if thorough else 6, Q=2, A=3, tick=15768000000000, beyond=1), **ex)
            out.append(seqjob(name(prefix + "longdur", kw), **kw))
    return out


def expiry_space(tier, prop):
    thorough = tier == "thorough"
    out = []
    if prop == "C05":
        exps = [dict(ttl=0), dict(ttl=2), dict(ttl=3), dict(ttl=2, tti=3), dict(ttl=3, tti=2)]
    else:
        exps = [dict(tti=0), dict(tti=2), dict(tti=3), dict(tti=2, ttl=3), dict(tti=3, ttl=2)]
    for kind in ("U", "S"):
        for ex in exps:
            for cap in ("none", 2):
                base = dict(kind=kind, cap=cap, alpha="expiry", keys=2 if cap == "none" else 3, **ex)
                if kind == "U":
                    kw = dict(base, D=10 if thorough else 8, A=4 if thorough else 3)
                    out.append(seqjob(name(prop.lower(), kw), **kw))
                else:
                    for rg in regimes():
                        kw = dict(base, D=9 if thorough else 7, Q=3 if thorough else 2, A=4 if thorough else 3, **rg)
                        out.append(seqjob(name(prop.lower(), kw), **kw))
    # the same spaces with an odd time unit (1 000 003 ns instead of a millisecond): no
    # reading, deadline or duration is a whole number of milliseconds or microseconds, and
    # the clock still lands exactly on every deadline (round 17)
    for kind in ("U", "S"):
        for ex in exps[1:]:
            base = dict(kind=kind, cap="none", alpha="expiry", keys=2, unit=ODD_UNIT, **ex)
            if kind == "U":
                kw = dict(base, D=9 if thorough else 7, A=4 if thorough else 3)
                out.append(seqjob(name(prop.lower(), kw), **kw))
            else:
                for rg in regimes():
                    kw = dict(base, D=8 if thorough else 6, Q=2, A=4 if thorough else 3, **rg)
                    out.append(seqjob(name(prop.lower(), kw), **kw))
    # ... and with a tick of ONE NANOSECOND (durations of 2 and 3 ns): whatever is rounded
    # to micro- or milliseconds anywhere on the way decides differently
    for kind in ("U", "S"):
        for ex in exps[1:4]:
            base = dict(kind=kind, cap="none", alpha="expiry", keys=2, unit=1, tick=1, **ex)
            if kind == "U":
                kw = dict(base, D=9 if thorough else 7, A=4 if thorough else 3)
                out.append(seqjob(name(prop.lower(), kw), **kw))
            else:
                for b in (1, 0):
                    kw = dict(base, D=8 if thorough else 6, Q=2, A=4 if thorough else 3, beyond=b)
                    out.append(seqjob(name(prop.lower(), kw), **kw))
    return out


def unit_space(tier, prefix):
    """Pressure-free expiry configurations with an odd time unit and with one-nanosecond
    ticks (the whole alphabet; MUST and MAY oracles): a duration or a reading that is
    rounded to milli- or microseconds anywhere expires entries early or late."""
    thorough = tier == "thorough"
    out = []
    for kind in ("U", "S"):
        for ex in (dict(ttl=2), dict(tti=2), dict(ttl=3, tti=2)):
            for unit, tick in ((ODD_UNIT, 1000), (1, 1)):
                base = dict(kind=kind, cap="none", alpha="basic", keys=2, unit=unit, tick=tick, A=2, **ex)
                if kind == "U":
                    kw = dict(base, D=8 if thorough else 6)
                    out.append(seqjob(name(prefix + "unit", kw), **kw))
                else:
                    for b in ((1, 0) if unit == 1 else (1,)):
                        kw = dict(base, D=7 if thorough else 6, Q=2, beyond=b)
                        out.append(seqjob(name(prefix + "unit", kw), **kw))
    return out


def lru_space(tier):
    thorough = tier == "thorough"
    out = []
    for kind in ("U", "S"):
        for cap, w, h in itertools.product([1, 2, 3, 4] + ([6, 8] if thorough else []), [0, 1], ["spread", "collide"]):
            keys = min(cap + 2, 5) if cap <= 4 else (cap + 1)
            if w == 1 and cap > 4:
                continue
            d = (8 if thorough else 7) if cap <= 2 else (7 if thorough else 6)
            if cap > 4:
                d = cap + 3
                keys = cap + 1
            if w == 1:
                keys = min(keys, 3)
            kw = dict(kind=kind, cap=cap, w=w, hash=h, alpha="lru", lru=1, keys=keys, D=d, A=0, Q=0,
                      autosync=1 if kind == "S" else 0)
            out.append(seqjob(name("lru", kw), **kw))
            # the same space with expiry configured (the clock stands still, so nothing
            # expires, but the timestamp-carrying code paths decide recency)
            if h == "spread" and cap <= 3:
                for ex in (dict(ttl=2), dict(tti=2), dict(ttl=3, tti=2)):
                    # ... and with the clock moving (expiry purge, then the excess: the
                    # prediction purges what the model knows to be past its deadline)
                    k2 = dict(kw, A=2, D=kw["D"] - (0 if w == 0 else 1), **ex)
                    out.append(seqjob(name("lru", k2), **k2))
    # the concurrent cache in the housekeeping regime in which every call runs the pending
    # maintenance BEFORE it queues its own op (an invalidate then finds its key's nodes
    # still linked, a purge finds a key that is no longer in the map), with expiry and a
    # moving clock; sync() after every op as above
    for cap, ex in itertools.product([2, 3], (dict(ttl=2), dict(tti=2), dict(ttl=3, tti=2))):
        kw = dict(dict(kind="S", cap=cap, w=0, hash="spread", alpha="lru", lru=1, keys=4, D=7 if thorough else 6, A=2, Q=0, autosync=2, beyond=0, tick=200), **ex)
        out.append(seqjob(name("lruwithin", kw), **kw))
    # the concurrent cache WITHOUT maintenance after every op: whole maintenance passes
    # over several queued reads and writes, predicted from the queues they find
    # (housekeeping regime "beyond": only sync() runs a pass)
    for cap, w, h in itertools.product([1, 2, 3], [0, 1], ["spread", "collide"]):
        if w == 0:
            d, q = (8, 4) if thorough else (7, 4)
        else:
            d, q = (7, 3) if thorough else (6, 3)
        kw = dict(kind="S", cap=cap, w=w, hash=h, alpha="lru", lru=1, keys=3, D=d, A=0, Q=q, autosync=0, beyond=1, tick=1000)
        out.append(seqjob(name("lrubatch", kw), **kw))
    return out


def pure_space(tier):
    thorough = tier == "thorough"
    out = []
    for kind in ("U", "S"):
        cfgs = [dict(cap=1, tti=2), dict(cap=2, tti=2), dict(cap=2), dict(cap=3, w=1, alpha="weights"), dict(cap=2, ttl=2, tti=3), dict(cap="none", tti=2),
                dict(cap=3, w=1, alpha="weights", ttl=2, keys=2)]
        for c in cfgs:
            kw = dict(dict(kind=kind, alpha="basic", pure=1, keys=3, A=2), **c)
            if kind == "U":
                kw.update(D=7 if thorough else 6)
                if kw["alpha"] == "weights":
                    kw["D"] -= 1
                out.append(seqjob(name("pure", kw), **kw))
            else:
                for rg in regimes():
                    k2 = dict(kw, D=7 if thorough else 5, Q=2, **rg)
                    if k2["alpha"] == "weights":
                        k2["D"] -= 1
                    out.append(seqjob(name("pure", k2), **k2))
    return out


def c08_space(tier):
    thorough = tier == "thorough"
    out = []
    for kind in ("U", "S"):
        for cap, w, ex in itertools.product([0, 1, 2], [0, 1], [dict(), dict(ttl=2, tti=2), dict(ttl=2), dict(tti=2)]):
            if cap == 0 and ex:
                continue
            # only one timer: the other queue / timestamp does not exist (cap 2 only)
            if len(ex) == 1 and (cap != 2 or w == 1):
                continue
            kw = dict(kind=kind, cap=cap, w=w, alpha="stress", keys=3, **ex)
            if kind == "U":
                kw.update(D=9 if thorough else 6, A=2 if ex else 0)
                out.append(seqjob(name("c08", kw), **kw))
            else:
                for rg in regimes():
                    k2 = dict(kw, D=8 if thorough else 6, Q=3, A=(2 if rg["beyond"] == 0 else 1) if ex else 0, **rg)
                    out.append(seqjob(name("c08", k2), **k2))
    # capacity 0 with a weigher that can return 0 (zero-weight entries are admitted into a
    # cache of capacity 0; every ratio with max_capacity in the denominator is 0/0)
    for kind in ("U", "S"):
        kw = dict(kind=kind, cap=0, w=1, alpha="weights", keys=2, D=6 if thorough else 5, A=0, Q=3)
        if kind == "S":
            for rg in regimes():
                k2 = dict(kw, **rg)
                out.append(seqjob(name("c08zero", k2), **k2))
        else:
            out.append(seqjob(name("c08zero", kw), **kw))
    out.append({"id": "deque-4", "argv": ["dequex", "4", "40"]})
    if thorough:
        out.append({"id": "deque-6", "argv": ["dequex", "6", "60"]})
        # the same spaces once more under AddressSanitizer (about 8x slower, so one level
        # shallower); there the walker does not stop the search at a dangling pointer:
        # the execution runs into the dereference and the sanitizer reports it
        asan = []
        for j in out:
            if j["argv"][0] == "seqx":
                sp = j["argv"][1]
                import re
                d = int(re.search(r"D=(\d+)", sp).group(1))
                sp2 = re.sub(r"D=\d+", "D=%d" % (d - 1), sp)
                asan.append({"id": "asan-" + j["id"], "argv": ["seqx", sp2, "@JOURNAL@"], "asan": True})
        asan.append({"id": "asan-deque-5", "argv": ["dequex", "5", "60"], "asan": True})
        # schedules of the quick-size program families under the sanitizer too
        for fam, cap in (("c02", "4000"), ("c02x", "4000"), ("gen", "1000")):
            for i in range(8):
                asan.append({"id": "asan-sched-%s-%02d" % (fam, i), "argv": ["schedx", fam, "quick", "2", str(i), "8", cap], "asan": True})
        out += asan
    for cap in (0, 1, 2, 3, 5):
        out.append({"id": "sketch-tiling-%d" % cap, "argv": ["sketchx", str(cap), "tiling", "3", "40" if not thorough else "90"]})
    # long increment histories on large tables incl. hashes at the ends of the index
    # arithmetic (an overflow there is a panic)
    for cap in (5000, 70000):
        out.append({"id": "sketch-aging-big-%d" % cap, "argv": ["sketchbig", str(cap)]})
    return out


def sketch_space(tier):
    thorough = tier == "thorough"
    out = []
    for cap in (0, 1, 2, 3, 5, 8):
        for start in ("empty", "tiling"):
            nalpha = 4 if (thorough or cap <= 3) else 3
            depth = {0: 30, 1: 30, 2: 45, 3: 50, 5: 60 if thorough else 40, 8: 90 if thorough else 40}[cap]
            out.append({"id": "sketch-%s-%d" % (start, cap), "argv": ["sketchx", str(cap), start, str(nalpha), str(depth), "4000000" if thorough else "600000"]})
    # larger capacities (incl. non powers of two): shallow, index bounds + per-step oracle
    for cap in (128, 129, 200, 1024, 1000003, 1 << 20):
        out.append({"id": "sketch-big-%d" % cap, "argv": ["sketchx", str(cap), "empty", "5", "7" if thorough else "5"]})
    # aging of large tables (more slots than any chunked sweep would cover): one fixed
    # history per capacity up to and past the first aging steps, whole table vs reference
    for cap in (5000, 70000, 300000) + ((1200000,) if thorough else ()):
        out.append({"id": "sketch-aging-big-%d" % cap, "argv": ["sketchbig", str(cap)]})
    # cache-level clause: only get is recorded, once
    for kind in ("U", "S"):
        for cap, h in itertools.product([2, 3], ["spread", "collide"]):
            kw = dict(kind=kind, cap=cap, alpha="basic", hash=h, keys=3, D=7 if thorough else 6, A=0, Q=2)
            if kind == "S":
                for rg in regimes():
                    k2 = dict(kw, **rg)
                    out.append(seqjob(name("c14", k2), **k2))
            else:
                out.append(seqjob(name("c14", kw), **kw))
        # ... also for lookups of entries that are dead but not purged yet (expired, or
        # hidden by an invalidate_all at a later reading): exactly one record each
        for ex in (dict(ttl=2), dict(tti=2), dict()):
            kw = dict(dict(kind=kind, cap=2, alpha="basic", hash="spread", keys=2, D=7 if thorough else 6, A=2 if ex else 1, Q=2), **ex)
            if kind == "S":
                for rg in regimes():
                    k2 = dict(kw, **rg)
                    out.append(seqjob(name("c14x", k2), **k2))
            else:
                out.append(seqjob(name("c14x", kw), **kw))
    return out


def sched(family, tier, bound, parts, maxs=None):
    out = []
    for i in range(parts):
        argv = ["schedx", family, tier, str(bound), str(i), str(parts)]
        if maxs:
            argv.append(str(maxs))
        out.append({"id": "sched-%s-b%d-%02d" % (family, bound, i), "argv": argv})
    return out


def longruns(patterns, lru=0):
    out = []
    for kind in ("U", "S"):
        for w in (0, 1):
            for pattern, cap, n in patterns:
                sp = spec(kind=kind, cap=cap, w=w, keys=3, lru=lru, autosync=1 if (kind == "S" and lru) else 0)
                out.append({"id": "long-%s-%s-w%d-cap%s" % (pattern, kind, w, cap), "argv": ["longrun", sp, pattern, str(n)]})
    return out


def bigw_space(tier):
    """Weights whose sums cross u32::MAX (capacity 2^33, by-value weigher)."""
    thorough = tier == "thorough"
    out = []
    for kind in ("U", "S"):
        for ex in (dict(), dict(ttl=2)):
            kw = dict(kind=kind, cap=1 << 33, w=1, alpha="bigw", keys=3, D=6 if thorough else 5, Q=2, A=1 if ex else 0, **ex)
            out.append(seqjob(name("bigw", kw), **kw))
            if kind == "S":
                k2 = dict(kw, autosync=1, lru=1, Q=0, A=0) if not ex else None
                if k2:
                    out.append(seqjob(name("bigw-lru", k2), **k2))
    return out


def scripted(kinds=("U", "S")):
    out = []
    for kind in kinds:
        out.append({"id": "long-massinval-%s" % kind, "argv": ["longrun", spec(kind=kind, cap="none", keys=3, A=9), "massinval", "150"]})
        out.append({"id": "long-massinval-ttl-%s" % kind, "argv": ["longrun", spec(kind=kind, cap="none", ttl=3, keys=3, A=9), "massinval", "150"]})
        for n in (10, 12, 20, 40, 100):
            out.append({"id": "long-manyvictims-%s-%d" % (kind, n), "argv": ["longrun", spec(kind=kind, cap=n, w=1, keys=3, lru=1, autosync=1 if kind == "S" else 0, A=0), "manyvictims", str(n)]})
        # warm newcomers (estimate 7) against hot residents, ~250 distinct newcomer keys
        for cap, h in ((4, "spread"), (4, "collide"), (2, "spread")):
            out.append({"id": "long-warm-%s-%d-%s" % (kind, cap, h), "argv": ["longrun", spec(kind=kind, cap=cap, w=0, hash=h, keys=3, lru=1, autosync=1 if kind == "S" else 0, A=0), "warm", "250"]})
    # the victim walk of an admission contest across leftovers of invalidated keys
    # (sync cache, ops stay queued until sync())
    for pat, n in (("staleskips5", 8), ("staleskips5", 6), ("staleskips33", 8), ("staleskips33", 10), ("staleskips-rej", 8), ("staleskips-rej", 11)):
        out.append({"id": "long-%s-%d" % (pat, n), "argv": ["longrun", spec(kind="S", cap=(n - 3) if pat.endswith("rej") else n, w=1, keys=3, lru=1, autosync=0, beyond=1, tick=1000, A=0), pat, str(n)]})
    # weigher + ttl + capacity, every call runs the pending maintenance first (n = ttl in ticks)
    out.append({"id": "long-worotate", "argv": ["longrun", spec(kind="S", cap=10, w=1, ttl=50, keys=3, autosync=0, beyond=0, tick=100, A=9), "worotate", "50"]})
    out.append({"id": "long-worotate-tti", "argv": ["longrun", spec(kind="S", cap=10, w=1, ttl=50, tti=60, keys=3, autosync=0, beyond=0, tick=100, A=9), "worotate", "50"]})
    out.append({"id": "long-warm-S-batched", "argv": ["longrun", spec(kind="S", cap=4, w=0, keys=3, lru=1, autosync=0, beyond=1, tick=1000, A=0), "warm", "250"]})
    return out


def from_full(prop, tier):
    """Searches started from non-initial states: a cache filled to its capacity."""
    thorough = tier == "thorough"
    out = []
    for kind in ("U", "S"):
        for cap, pre in ((2, "ins:0:1+ins:1:1"), (3, "ins:0:1+ins:1:2"), (3, "ins:0:1+ins:1:1+ins:2:1")):
            p = pre + ("+sync" if kind == "S" else "")
            for rg in (regimes() if kind == "S" else [dict()]):
                kw = dict(kind=kind, cap=cap, w=1, alpha="weights", keys=3, D=(6 if thorough else 5) if kind == "S" else (7 if thorough else 5), Q=2, A=0, pre=p, **rg)
                out.append({"id": name("full-" + prop.lower(), {k: v for k, v in kw.items() if k != "pre"}) + "-" + pre.replace(":", "").replace("+", "_"), "argv": ["seqx", spec(**kw), "@JOURNAL@"]})
    return out


def staged_expiry(prop, tier):
    """Searches started from a staged state: a full weighted cache in which one resident
    has expired (not purged yet) while the least recently used one is alive - purge and
    size eviction have to happen in the right order in the pass that follows."""
    thorough = tier == "thorough"
    out = []
    for kind in ("U", "S"):
        sy = "+sync" if kind == "S" else ""
        # (a pass applies its reads before its writes: the hit of key 0 must come after
        # the pass that admits keys 1 and 2, or it would not make key 0 the most recent)
        pre = "ins:0:1" + sy + "+adv:1+ins:1:1+ins:2:1" + sy + "+get:0" + sy + "+adv:1"
        # ... and the same one step earlier: the oldest resident expires only after the
        # search has had the chance to create an excess (a growing update) first
        pre2 = "ins:0:1" + sy + "+adv:1+ins:1:1+ins:2:1" + sy + "+get:0" + sy
        for ex in (dict(ttl=2), dict(ttl=2, tti=3)):
            for tag, p_ in (("a", pre), ("b", pre2)):
                # (A counts the advances of the prefix too: one more than it contains)
                kw = dict(dict(kind=kind, cap=3, w=1, alpha="weights", keys=3, D=4 if thorough else 3, Q=2, A=p_.count("adv") + 1, pre=p_, beyond=1, tick=1000), **ex)
                out.append({"id": name("staged" + tag + "-" + prop.lower(), {k: v for k, v in kw.items() if k != "pre"}), "argv": ["seqx", spec(**kw), "@JOURNAL@"]})
    return out


def callback_space(tier, prefix):
    """The caller's own callbacks panic (the by-value weigher on one value, the predicate of
    invalidate_entries_if on one key, Clone of one value in the concurrent cache), the
    caller catches the panic and goes on using the cache: every clause still holds."""
    thorough = tier == "thorough"
    out = []
    for kind in ("U", "S"):
        for cap, w, ex in itertools.product(["none", 2], [0, 1], [dict(), dict(ttl=2, tti=2), dict(tti=2)]):
            if kind == "U" and w == 0 and cap == "none" and ex:
                continue
            if ex == dict(tti=2) and (kind == "U" or w == 1):
                continue
            kw = dict(dict(kind=kind, cap=cap, w=w, alpha="callbacks", keys=3 if not ex else 2, D=7 if thorough else (5 if not ex else 6), Q=2, A=2 if ex else 0), **ex)
            if kind == "S":
                for rg in regimes():
                    k2 = dict(kw, **rg)
                    out.append(seqjob(name(prefix + "cb", k2), **k2))
            else:
                kw["D"] += 1
                out.append(seqjob(name(prefix + "cb", kw), **kw))
    return out


def longruns_expiry(prop):
    out = []
    for kind in ("U", "S"):
        exps = [dict(tti=2), dict(tti=2, ttl=3)] if prop == "C06" else ([dict(ttl=2), dict(ttl=2, tti=3)] if prop == "C05" else [dict(tti=2), dict(ttl=2)])
        for ex in exps:
            for rg in (regimes() if kind == "S" else [dict()]):
                for pattern, n in (("readburst", 450), ("readburst", 70), ("massexpiry", 80), ("massexpiry", 240), ("massexpiry-upd", 240), ("massexpiry-upd", 130)):
                    if pattern == "readburst" and "tti" not in ex:
                        continue
                    kw = dict(kind=kind, cap="none", keys=3, A=9, **ex, **rg)
                    out.append({"id": name("long-%s%d" % (pattern, n), kw), "argv": ["longrun", spec(**kw), pattern, str(n)]})
    return out


def jobs_for(prop, tier):
    thorough = tier == "thorough"
    j = _jobs_for(prop, tier)
    if prop in ("C03", "C05", "C06", "C08"):
        j = j + longruns_expiry(prop)
    if prop in ("C01", "C03", "C04", "C06", "C08", "C10", "C11"):
        j = j + callback_space(tier, prop.lower())
    if prop in ("C03", "C04", "C10", "C11", "C08"):
        j = j + from_full(prop, tier)
    if prop in ("C01", "C03", "C05", "C06", "C10", "C11", "C16"):
        j = j + deep_narrow(tier, prop.lower())
    if prop in ("C03", "C05", "C06"):
        j = j + longdur_space(tier, prop.lower(), "basic" if prop == "C03" else "expiry")
    if prop in ("C03", "C12", "C04", "C11"):
        j = j + staged_expiry(prop, tier)
    if prop in ("C04", "C08", "C10", "C12", "C13"):
        j = j + bigw_space(tier)
    # scale scenarios with u32 keys (E1c): more evictions than one batch, more consecutive
    # invalidations than the write log holds, 70 000 entries of weight u32::MAX
    if prop in ("C04", "C10", "C08"):
        j = j + [{"id": "scalex-bigexcess", "argv": ["scalex", "bigexcess"]}]
    if prop in ("C09", "C10"):
        j = j + [{"id": "scalex-invalidate-burst", "argv": ["scalex", "invalidate-burst"]}]
    if prop in ("C08", "C10", "C04", "C03"):
        j = j + [{"id": "scalex-hugeweights", "argv": ["scalex", "hugeweights"]}]
    if prop in ("C13", "C14"):
        j = j + [{"id": "scalex-sketchgrow", "argv": ["scalex", "sketchgrow"]}, {"id": "scalex-sketchregrow", "argv": ["scalex", "sketchregrow"]}]
    if prop in ("C01", "C07", "C12", "C13", "C10", "C11"):
        j = j + scripted()
    # long scripted histories through the same per-step oracles (thresholds beyond any
    # exhaustive depth: sketch enabled at half full, 128-word table, batches)
    if prop == "C14":
        j = j + longruns([("fill", 300, 250), ("fill", 200, 250), ("churn", 100, 250)])
    elif prop in ("C03", "C04", "C10", "C11"):
        j = j + longruns([("churn", 100, 250), ("churn", 20, 250), ("fill", 300, 250)])
    elif prop in ("C12", "C13"):
        j = j + longruns([("churn", 100, 250), ("churn", 20, 250)], lru=1)
    if prop in ("C08", "C17", "C01"):
        j = j + [{"id": "scalex-types1cpu", "argv": ["scalex", "types1cpu"]}]
    # one cache object living through 400 000 operations (pressure-free, compared with a map)
    if prop in ("C01", "C03", "C05", "C07", "C10", "C16"):
        j = j + [{"id": "scalex-typeslong", "argv": ["scalex", "typeslong"]}]
    if prop in ("C01", "C03", "C16"):
        j = j + unit_space(tier, prop.lower())
    # key / value types other than the search engines' own, RandomState, build() (E1d)
    if prop in ("C01", "C03", "C05", "C06", "C07", "C08", "C10", "C16"):
        j = j + [{"id": "scalex-types", "argv": ["scalex", "types"]}]
    # explored schedules of the real sync cache (E2); the postlude of every schedule
    # checks structure, counters, drops, final state and the sequential refill
    b = 3 if thorough else 2
    loom = [{"id": "loom-atomic-instant", "argv": ["all"], "bin": "loom"}]
    # systematic product of configurations x preludes x thread programs (bound 2; per
    # program schedule cap, reported when hit)
    gen = sched("gen", tier, 2, 16, 20000 if thorough else 1500)
    if prop == "C02":
        j = sched("c02", tier, b, 16) + sched("c02w", tier, b, 8) + sched("c02x", tier, b, 4) + sched("c02t", tier, b, 8) + sched("c07", tier, b, 2) + sched("c16", tier, b, 2) + loom + gen + sched("fine", tier, b, 4) + sched("inwrite", tier, b, 4)
    elif prop == "C09":
        j = sched("c09", tier, 2 if thorough else 1, 8, 20000) + sched("c02", tier, 2, 16) + sched("c07", tier, 2, 2) + sched("rdfull", tier, 1, 2, 20000) + gen + sched("fair", tier, 0, 1)
        # a single thread under the single-thread scheduler (E1): a lock the caller holds
        # itself, a retry loop waiting for nobody, an unbounded loop inside one call are
        # violations instead of hangs; every call sequence of the C01 space (sync cache)
        j = j + c01_space(tier, kinds=("S",), caps=["none", 1], weighers=(0,), with_collide=False, prefix="c09",
                          dS=7 if thorough else 5, a=2)
        j = j + [{"id": "scalex-invalidate-burst", "argv": ["scalex", "invalidate-burst"]}]
    elif prop == "C07":
        j = j + sched("c07", tier, b, 4) + sched("c02x", tier, b, 4) + loom + gen
    elif prop == "C16":
        j = j + sched("c16", tier, b, 3)
    elif prop == "C04":
        j = j + sched("c04", tier, 2, 6) + [{"id": "overshoot", "argv": ["overshoot"]}] + nodebug(sched("c04", tier, 2, 6))
        # a side effect inside a debug assertion exists in this build only: a few of the
        # sequential spaces once more on the engine without the library's debug assertions
        j = j + nodebug(c01_space(tier, caps=[1, 2], weighers=(1,), expiries=[dict()], with_collide=False, prefix="c04", alpha="c04",
                                  dU=6 if thorough else 5, dS=6 if thorough else 5))
    elif prop in ("C03", "C08", "C10", "C11"):
        j = j + sched("c02", tier, 2, 16) + sched("c02w", tier, 2, 8) + sched("c02x", tier, 2, 4) + gen
        # scheduling also at the loads of an entry's shared flags and weight
        j = j + sched("fine", tier, b, 4) + sched("inwrite", tier, b, 4)
        if prop == "C08":
            j = j + sched("rdfull", tier, 1, 2, 20000)
        if prop == "C10":
            j = j + nodebug(sched("c04", tier, 2, 6))
    elif prop == "C06":
        j = j + sched("c02t", tier, 2, 8)
    return j


def _jobs_for(prop, tier):
    thorough = tier == "thorough"
    if prop == "C01":
        # plus the self-test of the snapshot hook and the hashers (a failure is a
        # machinery error, exit 2, never a verdict)
        return c01_space(tier) + [{"id": "selftest", "argv": ["selftest", "5" if thorough else "4"]}]
    if prop == "C03":
        # no-pressure configurations for the lower bound, small capacities for M-room;
        # deeper than C01 because drift shows on the refill after expiry/invalidation
        return (c01_space(tier, caps=["none"], with_collide=False, prefix="c03", dU=10 if thorough else 7, dS=9 if thorough else 7, keysU=2, keysS=2, a=3 if thorough else 2)
                + c01_space(tier, caps=[1, 2, 3], with_collide=False, prefix="c03", dU=9 if thorough else 7, dS=8 if thorough else 6, a=2 if thorough else 1)
                # two clock advances under capacity pressure (single-threaded cache, two keys,
                # weighted): an update that does not fit, then the key again, across two deadlines
                + c01_space(tier, caps=[1, 2], weighers=(1,), expiries=[dict(ttl=2), dict(tti=2)], kinds=("U",), with_collide=False,
                            prefix="c03a2", dU=8 if thorough else 7, keysU=2, a=2))
    if prop == "C04":
        return c01_space(tier, alpha="c04", caps=[0, 1, 2, 3], weighers=(1,), with_collide=False, prefix="c04", dU=8 if thorough else 6, dS=7 if thorough else 5, keysU=2, keysS=2) + \
            c01_space(tier, caps=[0, 1, 2], weighers=(0,), expiries=[dict(), dict(ttl=2, tti=3)], with_collide=True, prefix="c04")
    if prop in ("C05", "C06"):
        return expiry_space(tier, prop)
    if prop == "C07":
        out = c01_space(tier, alpha="inval", caps=["none", 2], prefix="c07", dU=8 if thorough else 6, dS=8 if thorough else 6, a=2, with_collide=False)
        # deep and narrow: two keys, the regime in which reads and writes stay queued
        # (a lookup / an invalidation decided on timestamps that a queued hit is about to change)
        for cap, ex in itertools.product(["none", 2], [dict(), dict(ttl=2), dict(tti=2), dict(ttl=3, tti=2)]):
            kw = dict(dict(kind="S", cap=cap, w=0, hash="spread", alpha="inval", keys=2, D=10 if thorough else 8, Q=3, A=2, beyond=1, tick=1000), **ex)
            out.append(seqjob(name("c07deep", kw), **kw))
        return out
    if prop == "C08":
        return c08_space(tier)
    if prop == "C10":
        return c01_space(tier, caps=["none", 1, 2], with_collide=False, prefix="c10", dU=9 if thorough else 7, dS=8 if thorough else 6)
    if prop == "C11":
        return c01_space(tier, caps=["none", 1, 2], with_collide=False, prefix="c11", dU=9 if thorough else 6, dS=8 if thorough else 6) + \
            [{"id": "deque-4", "argv": ["dequex", "4", "40"]}]
    if prop in ("C12", "C13"):
        return lru_space(tier)
    if prop == "C14":
        return sketch_space(tier)
    if prop == "C15":
        # ... plus the staged starts (a full weighted cache with ttl, the most recently used
        # resident about to expire, room for an excess): the order purge-then-evict inside
        # contains_key must be the one every other call uses
        st = [dict(j, argv=[j["argv"][0], j["argv"][1].replace("pure=0", "pure=1"), j["argv"][2]]) for j in staged_expiry("C15", tier)]
        return pure_space(tier) + st
    if prop == "C16":
        return c01_space(tier, caps=["none", 2], with_collide=True, prefix="c16", a=3 if thorough else 2, dU=8 if thorough else 7, dS=7 if thorough else 6)
    if prop == "C17":
        return [{"id": "cfgx", "argv": ["cfgx"]}]
    return []


EXPLAIN = {
    "seq": "explicit-state breadth-first search over operation histories of the REAL cache: every transition builds a fresh cache, replays the history and executes one more public API call; states are deduplicated on the exact canonical form of the implementation state (map, deques, counters, sketch, watermarks, both op queues) plus the reference model's state; every transition is checked against the reference model (MAY/MUST lookups, admission bookkeeping, counters, structure walker, drop tracking).",
}


SCHED = ("stateless preemption-bounded depth-first exploration of thread schedules of the REAL sync cache: real OS threads under a baton-passing scheduler that is called at cfg-guarded switch, blocking and yield points; every schedule with at most the stated number of preemptions of every program of the enumerated families is executed (counted under 'schedules' and as transitions; 'states' counts programs for these jobs); each execution's call/return history is checked against the register-with-loss specification and its quiescent end state against structure, counters, drop tracking, final-value and refill clauses; deadlock = no enabled thread, livelock = only spinners / event budget. The maintenance mutex is behind a cfg-guarded wrapper (lock = blocking point, try_lock = switch point followed by the real attempt); sync() must be a barrier for every write queued before it was called; the 'fine' family also schedules at the loads of an entry's shared flags and weight.")


def nodebug(joblist):
    """The same schedule jobs on the engine built without the library's debug assertions
    (an internal assertion would otherwise end the execution before the property's own
    clause is evaluated)."""
    return [dict(j, id="nd-" + j["id"], nodebug=True) for j in joblist]


def explain(prop, tier):
    if prop in ("C02", "C09"):
        extra = " Plus loom model checking of the valid_after watermark primitive (every lock acquisition a scheduling point)." if prop == "C02" else ""
        if prop == "C09":
            extra = " Plus the scale scenario of 1000 consecutive invalidations (more than the write log holds) with a deadline. Plus E1 under a single-thread scheduler: " + EXPLAIN["seq"] + " A blocking point whose probe is false (the caller holds the lock it wants), 20000 yields without progress or 3000000 instrumented points inside one call are reported as self-deadlock / livelock instead of hanging the worker."
        return SCHED + extra
    base = _explain(prop, tier)
    if prop in ("C03", "C04", "C08", "C10"):
        base += " SCALE: seven fixed scenarios on caches with u32 keys (one update needing 799 evictions in a full cache of 1000; 1000 consecutive invalidations; 70000 entries of weight u32::MAX), each on a helper thread with a deadline, followed by the physical clauses (resident weight <= capacity, counters == held, nothing that fits is missing, no panic, the calls return)."
    if prop in ("C13", "C14"):
        base += " SCALE: six fixed scenarios (both caches, both housekeeping regimes, capacities 1000 and 3000 with a unit weigher): lookups recorded when the cache is half full must still count when it is full - estimate >= recorded lookups after every maintenance run, the popularity table allocated once, the popular newcomer admitted."
    if prop in ("C01", "C03", "C04", "C06", "C08", "C10", "C11"):
        base += " CALLBACKS: spaces whose alphabet contains calls in which the caller's own callback panics and the caller catches the panic (by-value weigher on one value, predicate of invalidate_entries_if on one key, Clone of a value inside insert / get of the concurrent cache); every clause must hold afterwards, a get whose clone panicked is not an access, and entries the predicate had not selected are untouched."
    if prop in ("C03", "C04", "C06", "C07", "C08", "C10", "C11", "C16"):
        base += " SCHEDULES: " + SCHED
    return base


def _explain(prop, tier):
    extra = {
        "C08": " Plus exhaustive search of the intrusive list (facade) to its fixpoint and of the sketch from all-odd tables.",
        "C12": " M-lru: the probation order must equal the residents sorted by last insert/update/successful get after every op, and evictions must be the shortest LRU prefix. M-pass (sync cache without maintenance after every op): a whole maintenance pass is predicted from the map, the access-order queue, the read log and the write log it finds; residents, recency order and counters after sync() must equal the prediction.",
        "C13": " M-tinylfu: admission decision predicted from the implementation's own estimates read just before the insert. M-pass (sync cache without maintenance after every op): every admission contest inside a pass over several queued ops is predicted with the estimates read after the pass (the sketch only changes while the read log is applied, which comes first).",
        "C14": " Sketch: BFS over increment sequences on the real FrequencySketch from the empty table and from all-odd tables, against an exact per-hash count model and a nibble-array reference of the whole table; plus cache histories for 'only get is recorded'.",
        "C15": " At every reachable state and for every contains_key/iter call p: canon(s.p) == canon(s) (on the unsync cache after the maintenance both sides have due).",
        "C17": " Exhaustive enumeration of builder knob combinations; policy(), panic iff > 1000 years, two differential histories (one whose admissions do not depend on popularity, one with lookups before the cache is half full followed by contests for room) against the equivalent configuration built with the same fixed hasher.",
    }.get(prop, "")
    if prop == "C17":
        return extra.strip()
    if prop == "C14":
        return extra.strip() + " CACHE HISTORIES: " + EXPLAIN["seq"]
    return EXPLAIN["seq"] + extra


def bounds(prop, tier):
    return {
        "tier": tier,
        "note": "per-job bounds (history depth D, pending-op bound Q, clock advances A, key universe) are in the job specs listed under per_job",
    }


def assumptions(prop):
    a = [
        "hooks compiled with --cfg mini_moka_verif are additive and do not change behaviour (suite re-run with the guard off)",
        "128-bit fingerprints of canonical states do not collide",
        "deterministic table-driven hasher; mock clock; DashMap shard count pinned to 4",
        "histories longer than the stated depth / more pending ops than Q / more clock advances than A are not covered",
    ]
    return a
